"""C18 — proxy daemon frame queue: locking discipline, per-client service
filter, queue release on close."""
from .. import atoms, ex, flow, locks, loops
from ..prog import AnalysisBroken

CLAUSE = ("daemon/proxyd.c: (RF-LOCK) every *modification* of the shared sliced-frame queue (PROXY_DEV.p_sliced / p_free, the "
          "ref_count and p_next of queued buffers, a client's queue cursor PROXY_CLNT.p_sliced) from the main loop, and every "
          "access to it (read or write) on the acquisition thread, holds queue_mutex (a buffer just unlinked under the lock, the "
          "cancellation handler and the tear-down after the thread was joined are listed exceptions, the last one checked); every "
          "modification of the client list and every traversal of it by the acquisition thread holds clnt_mutex; locks are paired on every path; the order "
          "is always clnt_mutex -> queue_mutex; (RF-DOM) a line is copied into a client's indication only under "
          "`line.id & that client's all_services`, a buffer returns to the free list only under ref_count == 0, a frame is queued "
          "for a client only in state FORWARD with a non-empty service set; (RF-CORR) a client's service mask is rebuilt from zero "
          "whenever it is re-accumulated; closing a client releases every buffer still queued for it (a loop, not a single "
          "release) under queue_mutex.")
CLAUSE = CLAUSE + (" A forwarding client's queue cursor is drained before a service update that can stop acquisition (and free "
                   "every queued buffer); in the proxy client library a transient RPC state (WAIT_*) is left again - to CAPTURING "
                   "or, through the failure path, to ERROR - on every path of the function that entered it, whatever the "
                   "daemon's reply (a client left in a WAIT state refuses every later frame).")
CLAUSE = CLAUSE + (" A queue buffer is published to the clients only under `res > 0` of the capture read (a device wake-up "
                   "without a frame delivers nothing); the socket switched to non-blocking mode in "
                   "vbi_proxy_msg_accept_connection is the one accept() returned (a stalled client cannot block the daemon's "
                   "main loop in send()).")
CLAUSE = CLAUSE + (" In vbi_proxy_queue_allocate a count taken by walking the free list is reset right after the list is released "
                   "and incremented right after a buffer is added; the byte offsets of the message I/O state (writeOff, readOff) are "
                   "added to byte pointers only.")
CLAUSE = CLAUSE + (" The assertion on a freshly captured frame admits line_count == max_lines (the buffer's capacity).")
CLAUSE = CLAUSE + (" vbi_proxyd_send_sliced decides the message form from the client's own service set only; the message length "
                   "is taken from the header under readOff >= sizeof (header), the accumulated offset.")
CLAUSE = CLAUSE + (' Requested services are OR-ed into the level they are requested at; after a successful vbi_proxyd_send_sliced every path releases the frame before the next client.')
NOT_DECIDED = ("exactly-once / in-order delivery, timing, device open/close sequencing, that a stalled client loses only its own "
               "frames (schedule-dependent behaviour); the main loop's unlocked *reads* of its clients' cursors and queued frames "
               "(vbi_proxyd_send_sliced, _handle_client_sockets, _get_fd_set) are a formal data race with the acquisition thread's "
               "force-free that could not be replayed into a wrong or lost frame: reported as notes, not claimed.")

UNIT = "daemon/proxyd.c"
Q_MUTEX = "PROXY_DEV.queue_mutex"
C_MUTEX = "PROXY_SRV.clnt_mutex"
Q_FIELDS = {("PROXY_DEV", "p_sliced"), ("PROXY_DEV", "p_free"), ("PROXY_QUEUE_s", "ref_count"),
            ("PROXY_QUEUE_s", "p_next"), ("PROXY_CLNT_s", "p_sliced")}
Q_DATA = {("PROXY_QUEUE_s", "lines"), ("PROXY_QUEUE_s", "line_count"), ("PROXY_QUEUE_s", "timestamp"), ("PROXY_QUEUE_s", "p_raw_data")}
C_FIELDS = {("PROXY_SRV", "p_clnts"), ("PROXY_CLNT_s", "p_next")}
# functions that set the queue up or tear it down while no other thread can run
# (acquisition is stopped / not yet started); confirmed by reading each
# (function, field): the buffer was unlinked from the shared lists under the lock just
# before; until it is queued again it is private to the caller
PRIVATE_AFTER_UNLINK = {("vbi_proxy_queue_get_free", "p_next"), ("vbi_proxy_queue_get_free", "ref_count")}
EXEMPT = {
    "vbi_proxy_queue_add_free<-vbi_proxyd_acq_thread_cleanup": "cancellation handler of the acquisition thread: the main loop is "
        "blocked in pthread_cond_timedwait (start_cond) inside vbi_proxyd_stop_acq_thread and does not touch the queue",
    "vbi_proxy_stop_acquisition": "frees the queues after vbi_proxyd_stop_acq_thread has joined the acquisition thread (checked: "
        "RF-DOM stop-before-free)",
    "vbi_proxyd_add_device": "start-up, before any thread exists",
    "vbi_proxy_queue_free_all": "frees buffers of a queue head the caller owns (caller holds queue_mutex or acquisition is stopped)",
    "vbi_proxyd_init": "start-up",
    "vbi_proxyd_destroy": "shut-down after the acquisition threads were joined",
}


def _is_store_target(f, n):
    c = f._cache.get("store_targets_all")
    if c is None:
        c = set()
        for i, e in enumerate(f.exprs):
            if e["k"] == "asg" or (e["k"] == "un" and e["op"] in ("++", "--")):
                c.add(ex.skip(f, e["c"][0]))
        f._cache["store_targets_all"] = c
    return n in c


def _accesses(f, fields):
    pos = flow.elem_pos(f)
    return [i for i, e in enumerate(f.exprs) if i in pos and e["k"] == "mem" and (e.get("in"), e["member"]) in fields]


def _frame_reads(f):
    """Reads of a queued frame's contents through a client's cursor
    (req->p_sliced->lines ...)."""
    pos = flow.elem_pos(f)
    res = []
    for i, e in enumerate(f.exprs):
        if i not in pos or e["k"] != "mem" or (e.get("in"), e["member"]) not in Q_DATA:
            continue
        b = f.exprs[ex.skip(f, e["c"][0])]
        if b["k"] == "mem" and (b.get("in"), b["member"]) == ("PROXY_CLNT_s", "p_sliced"):
            res.append(i)
    return res


def run(ctx, run):
    P = ctx.prog
    main = P.need("vbi_proxyd_main_loop", UNIT)
    acq = P.need("vbi_proxyd_acq_thread", UNIT)

    def is_prot(f):
        return f.unit == UNIT and (bool(_accesses(f, Q_FIELDS | C_FIELDS)) or bool(_frame_reads(f)))

    res = locks.analyse(ctx, [main, acq], is_prot, track={Q_MUTEX, C_MUTEX})
    spec = res.spec
    # which contexts are reachable from the acquisition thread?
    acq_reach = set(ctx.sums.reachable([acq]).keys())

    counts = {"queue": 0, "frame": 0, "clist": 0}
    for fkey, ctxs in sorted(res.contexts.items(), key=lambda kv: str(kv[0])):
        f = locks._func_by_key(P, fkey)
        if f.unit != UNIT:
            continue
        run.touch(f)
        for S, eng in ctxs.items():
            cl = locks.callers_of(spec, fkey, S)
            tag = "%s%s" % (f.name, ("<-" + "+".join(cl)) if cl else "")
            sdesc = "{%s}" % ", ".join(sorted(x.split(".")[-1] for x in S))
            for gname, fields, mutex, what, finder in (
                    ("queue", Q_FIELDS, Q_MUTEX, "the shared frame queue", lambda g: _accesses(g, Q_FIELDS)),
                    ("frame", Q_DATA, Q_MUTEX, "a queued frame through the client's cursor", _frame_reads)):
                bad, tot, racy_reads = [], 0, []
                for node in finder(f):
                    held = locks.held_before(eng, node)
                    if held is None:
                        continue
                    tot += 1
                    if mutex not in held:
                        if (f.name, f.exprs[node]["member"]) in PRIVATE_AFTER_UNLINK:
                            continue
                        # the main loop only *reads* its clients' cursors and frames outside the lock;
                        # that is a formal data race with the acquisition thread's force-free which could not be
                        # turned into a wrong or lost frame (see DESIGN.md): recorded as a note, not claimed
                        if fkey not in acq_reach and not _is_store_target(f, node):
                            racy_reads.append(node)
                            continue
                        bad.append(node)
                if racy_reads:
                    run.note("%s reads %s without queue_mutex at %d site(s) (main loop only; formal race with "
                             "vbi_proxy_queue_force_free in the acquisition-thread configuration, not claimed)"
                             % (f.name, what, len(racy_reads)))
                if not tot:
                    continue
                counts[gname] += tot
                key = "RF-LOCK:%s:%s" % (gname, tag)
                if f.name in EXEMPT or tag in EXEMPT:
                    run.holds("RF-LOCK", key, "%d access(es) in %s: exempt (%s)" % (tot, f.name, EXEMPT.get(tag) or EXEMPT.get(f.name)),
                              "%s:%d" % (f.file, f.line), nontrivial=False)
                elif bad:
                    run.violation("RF-LOCK", key, "%s accesses %s without queue_mutex (%d of %d access(es), first `%s`; entry lockset %s): "
                                  "the acquisition thread recycles and refills buffers under that mutex"
                                  % (f.name, what, len(bad), tot, ex.pretty(f, bad[0])[:50], sdesc), ex.loc(f, bad[0]),
                                  witness={"function": f.name, "callers": cl, "entry_lockset": sorted(S),
                                           "lines": sorted({f.exprs[b]["line"] for b in bad})[:12]})
                else:
                    run.holds("RF-LOCK", key + ":" + sdesc, "%d access(es) to %s in %s, all with queue_mutex held" % (tot, what, f.name),
                              "%s:%d" % (f.file, f.line))
            # client list: writes always, reads when on the acquisition thread
            bad, tot = [], 0
            for node in _accesses(f, C_FIELDS):
                w = _is_store_target(f, node)
                if not w and fkey not in acq_reach:
                    continue
                held = locks.held_before(eng, node)
                if held is None:
                    continue
                tot += 1
                if C_MUTEX not in held:
                    bad.append(node)
            if tot:
                counts["clist"] += tot
                key = "RF-LOCK:clist:%s" % tag
                if f.name in EXEMPT:
                    run.holds("RF-LOCK", key, "exempt (%s)" % EXEMPT[f.name], "%s:%d" % (f.file, f.line), nontrivial=False)
                elif bad:
                    run.violation("RF-LOCK", key, "%s %s the client list without clnt_mutex (`%s`; entry lockset %s)"
                                  % (f.name, "modifies" if any(_is_store_target(f, b) for b in bad) else "walks (on the acquisition thread)",
                                     ex.pretty(f, bad[0])[:50], sdesc), ex.loc(f, bad[0]),
                                  witness={"function": f.name, "callers": cl})
                else:
                    run.holds("RF-LOCK", key + ":" + sdesc, "%d client-list access(es) with clnt_mutex held" % tot, "%s:%d" % (f.file, f.line))
    run.floor("shared queue accesses analysed", counts["queue"], 40)
    run.floor("frame reads through a client cursor", counts["frame"], 2)
    run.floor("client list accesses analysed", counts["clist"], 4)

    _pairing_and_order(ctx, run, res)

    _stop_before_free(ctx, run, P.need("vbi_proxy_stop_acquisition", UNIT))
    _send_sliced(ctx, run, P.need("vbi_proxyd_send_sliced", UNIT))
    _release(ctx, run, P.need("vbi_proxy_queue_release_sliced", UNIT))
    _forward(ctx, run, P.need("vbi_proxyd_forward_data", UNIT))
    _update_services(ctx, run, P.need("vbi_proxyd_update_services", UNIT))
    _close(ctx, run, P.need("vbi_proxyd_close", UNIT))
    # a service update of a forwarding client may stop acquisition, which frees the whole queue:
    # the client's cursor must have been drained before (shared with C19)
    from . import C19
    C19._drain_before_update(ctx, run, P.need("vbi_proxyd_take_message", UNIT))
    _client_transient_states(ctx, run)
    _publish_only_frames(ctx, run, P.need("vbi_proxyd_forward_data", UNIT))
    _accepted_socket_nonblocking(ctx, run)
    _count_follows_list(ctx, run)
    _byte_offsets_on_byte_pointers(ctx, run)
    _full_frame_admitted(ctx, run)
    _served_by_own_services(ctx, run)
    _header_complete_by_offset(ctx, run)
    _services_accumulate(ctx, run, P.need("vbi_proxyd_take_service_req", UNIT))
    _recycled_buffer_unreferenced(ctx, run, P.need("vbi_proxy_queue_get_free", UNIT))
    # a started request is received completely before the daemon writes to that client again (rule shared with C19)
    from . import C19
    C19._started_read_is_finished_first(ctx, run, ctx.prog.need("vbi_proxyd_get_fd_set", "daemon/proxyd.c"))
    _sent_frame_released(ctx, run, P.need("vbi_proxyd_handle_client_sockets", UNIT))
    from .. import sweep
    sweep.run(ctx, run, ["src/proxy-client.c"], {}, 10)


def _recycled_buffer_unreferenced(ctx, run, f):
    """vbi_proxy_queue_get_free() hands out a frame buffer for a new frame.  A buffer on the free list may still carry a
    reference count (a channel flush puts referenced buffers there), so every path on which a buffer was taken from the
    free list stores ref_count = 0 before the function returns it - otherwise the buffer can never be released again and
    after one round through the queue every further frame is dropped for all clients."""
    run.touch(f)
    takes = []
    for bid, i in flow.all_events(f):
        for lhs, var, op, rhs in flow.stores(f, i):
            if lhs is None or rhs is None:
                continue
            l = f.exprs[ex.skip(f, lhs)]
            if l["k"] == "ref" and l.get("dk") == "local" and "PROXY_DEV.p_free" in atoms.Operand(f, rhs).fields | \
                    {x.replace("_s.", ".") for x in atoms.Operand(f, rhs).fields}:
                takes.append((bid, i, l["name"]))
    run.floor("loads of the free list head in vbi_proxy_queue_get_free", len(takes), 1)
    for bid, i, name in takes:
        # the branch on which the buffer exists
        start = None
        for b2, blk in f.blocks.items():
            t = blk.term
            if t and "cond" in t and (b2 == bid or flow.dominates(f, bid, b2)):
                for s2, lab in f.edges(b2):
                    if lab in ("T", "F") and any(a.rel == "!=" and a.R is not None and a.R.const == 0 and name in a.L.locals and not a.L.fields
                                                  for a in atoms.edge_atoms(f, b2, lab)):
                        start = start or s2
        key = "RF-INIT:vbi_proxy_queue_get_free:recycled-buffer-unreferenced"
        if start is None:
            run.note("vbi_proxy_queue_get_free: no `%s != NULL` branch found; recycled-buffer rule not decided" % name)
            continue
        clears = {b for b, j in flow.all_events(f) if atoms.store_to_field("PROXY_QUEUE_s.ref_count", 0)(f, j)}
        if f.exit in flow.reach_from(f, start, avoid=clears):
            run.violation("RF-INIT", key, "a buffer taken from the free list (`%s`) is returned on a path that does not store "
                          "ref_count = 0: a buffer a channel flush put there while clients still referenced it keeps its count, can "
                          "never be released, and once every buffer has been round the queue all further frames are dropped"
                          % ex.pretty(f, i)[:50], ex.loc(f, i), witness={"function": f.name})
        else:
            run.holds("RF-INIT", key, "every path from `%s != NULL` to the return stores ref_count = 0" % name, ex.loc(f, i))


def _services_accumulate(ctx, run, f):
    """A service request without the reset flag *adds* services: the store that enters the new services at their
    level of strictness keeps what the client already had there (an OR into the element), otherwise the lines of the
    earlier services are filtered out of every later frame for that client."""
    run.touch(f)
    newp = [p["name"] for p in f.params if p["name"] not in (f.params[0]["name"],)]
    n = 0
    for bid, i in flow.all_events(f):
        for lhs, var, op, rhs in flow.stores(f, i):
            if lhs is None or rhs is None:
                continue
            flds = atoms.Operand(f, lhs).fields
            if not any(x.endswith(".services") for x in flds):
                continue
            ro = atoms.Operand(f, rhs)
            if not ro.locals or ro.const is not None:
                continue
            r = f.exprs[ex.skip(f, rhs)]
            if r["k"] == "un" and r["op"] == "~":
                continue            # `&= ~new_services` takes services away from the other levels
            n += 1
            key = "RF-CORR:%s:services-accumulate" % f.name
            keeps = op in ("|=",) or (op == "=" and any(x.endswith(".services") for x in ro.fields))
            if keeps:
                run.holds("RF-CORR", key, "`%s` adds to the services held at that level" % ex.pretty(f, i)[:70], ex.loc(f, i))
            else:
                run.violation("RF-CORR", key, "`%s` replaces the services the client holds at that level of strictness instead of "
                              "adding to them: a request without the reset flag drops the earlier services, whose lines are then "
                              "filtered out of every later frame" % ex.pretty(f, i)[:80], ex.loc(f, i), witness={"function": f.name})
    run.floor("stores entering requested services", n, 1)


def _sent_frame_released(ctx, run, f):
    """When vbi_proxyd_send_sliced() has succeeded the frame is in the client's message buffer: the client's queue
    cursor must advance (vbi_proxy_queue_release_sliced) before the loop goes on to the next client or returns -
    whether or not the write blocked - or the same frame is sent again."""
    run.touch(f)
    n = 0
    for bid, b in f.blocks.items():
        t = b.term
        if not t or "cond" not in t:
            continue
        if not any(f.exprs[m]["k"] == "call" and f.exprs[m].get("callee") == "vbi_proxyd_send_sliced" for m in ex.walk(f, t["cond"])):
            continue
        call = [m for m in ex.walk(f, t["cond"]) if f.exprs[m]["k"] == "call" and f.exprs[m].get("callee") == "vbi_proxyd_send_sliced"][0]
        r = ex.root(f, f.exprs[call]["c"][0])
        clnt = f.exprs[r]["name"] if r is not None else None
        # the success edge
        succ = [s for s, lab in f.edges(bid)
                if any(a.call_cmp("vbi_proxyd_send_sliced", "!=", 0) for a in atoms.edge_atoms(f, bid, lab))]
        if not succ:
            continue
        n += 1
        bad = None
        seen, st = set(), list(succ)
        while st:
            x = st.pop()
            if x in seen:
                continue
            seen.add(x)
            evs = flow.events(f, x)
            if any(f.exprs[i]["k"] == "call" and f.exprs[i].get("callee") in ("vbi_proxy_queue_release_sliced", "vbi_proxyd_close")
                   for i in evs):
                continue
            if x == f.exit or any(lhs is not None and f.exprs[ex.skip(f, lhs)]["k"] == "ref"
                                  and f.exprs[ex.skip(f, lhs)].get("name") == clnt
                                  for i in evs for lhs, var, op, rhs in flow.stores(f, i)):
                bad = x
                break
            st.extend(s2 for s2, _ in f.edges(x))
        key = "RF-PAIR:%s:sent-frame-released" % f.name
        if bad is None:
            run.holds("RF-PAIR", key, "after a successful vbi_proxyd_send_sliced every path releases the frame before the next client",
                      ex.loc(f, call))
        else:
            run.violation("RF-PAIR", key, "after a successful vbi_proxyd_send_sliced (%s) a path reaches the next client without "
                          "vbi_proxy_queue_release_sliced (%s): the frame already copied into the message buffer stays at the head "
                          "of the client's queue and is sent a second time" % (clnt, clnt), ex.loc(f, call),
                          witness={"function": f.name})
    run.floor("vbi_proxyd_send_sliced result tests", n, 1)


def _lock_analysis(ctx):
    P = ctx.prog
    main = P.need("vbi_proxyd_main_loop", UNIT)
    acq = P.need("vbi_proxyd_acq_thread", UNIT)

    def is_prot(f):
        return f.unit == UNIT and (bool(_accesses(f, Q_FIELDS | C_FIELDS)) or bool(_frame_reads(f)))
    return locks.analyse(ctx, [main, acq], is_prot, track={Q_MUTEX, C_MUTEX})


def lock_discipline(ctx, run):
    """Pairing and order only (shared with C19: a mutex taken twice or kept at a return stops the
    daemon for every client)."""
    _pairing_and_order(ctx, run, _lock_analysis(ctx))


def _pairing_and_order(ctx, run, res):
    P = ctx.prog
    spec = res.spec
    # pairing and order
    seen = set()
    for f, eid, msg, kind in spec.errors:
        if f.unit != UNIT:
            continue
        key = "RF-LOCK:pairing:%s:%s" % (f.name, kind)
        if key in seen:
            continue
        seen.add(key)
        run.violation("RF-LOCK", key, "%s: %s" % (f.name, msg), ex.loc(f, eid) if eid is not None else "%s:%d" % (f.file, f.line))
    n_lockfn = 0
    for fkey, ctxs in res.contexts.items():
        f = locks._func_by_key(P, fkey)
        if f.unit != UNIT or not any(f.exprs[i].get("callee") == locks.LOCK for b, i in flow.all_events(f) if f.exprs[i]["k"] == "call"):
            continue
        n_lockfn += 1
        for S, eng in ctxs.items():
            outs = {frozenset(So) for rv, So, ret in eng.outcomes()}
            if not outs:
                continue       # does not return (thread main loop)
            key = "RF-LOCK:pairing:%s" % f.name
            if outs == {frozenset(S)}:
                run.holds("RF-LOCK", key + ":{%s}" % ",".join(sorted(S)), "every exit of %s releases what it took" % f.name,
                          "%s:%d" % (f.file, f.line))
            elif not any(v["key"] == key + ":held-at-exit" for v in run.violations):
                run.violation("RF-LOCK", key + ":held-at-exit", "%s can return with lockset %s (entered with %s)"
                              % (f.name, [sorted(o) for o in outs if o != frozenset(S)], sorted(S)), "%s:%d" % (f.file, f.line))
    run.floor("proxyd functions taking a mutex", n_lockfn, 8)
    bad_order = [(a, b) for (a, b) in spec.order if a == Q_MUTEX and b == C_MUTEX]
    cyc = locks.order_cycles(spec.order)
    if bad_order or cyc:
        g, eid = spec.order[bad_order[0]] if bad_order else (None, None)
        run.violation("RF-LOCK", "RF-LOCK:order", "clnt_mutex is taken while queue_mutex is held (the acquisition thread takes them in "
                      "the opposite order): deadlock" if bad_order else "lock-order cycle %s" % cyc[0],
                      ex.loc(g, eid) if g is not None else None)
    else:
        run.holds("RF-LOCK", "RF-LOCK:order", "lock order edges: %s" % (", ".join("%s->%s" % (a.split(".")[-1], b.split(".")[-1])
                                                                                    for a, b in sorted(spec.order)) or "none"), None)



def _stop_before_free(ctx, run, f):
    """The exemption of vbi_proxy_stop_acquisition rests on this order."""
    run.touch(f)
    frees = [(b, i) for b, i in flow.all_events(f) if f.exprs[i]["k"] == "call" and f.exprs[i].get("callee") == "vbi_proxy_queue_free_all"]
    stops = [(b, i) for b, i in flow.all_events(f) if f.exprs[i]["k"] == "call" and f.exprs[i].get("callee") == "vbi_proxyd_stop_acq_thread"]
    run.floor("queue frees in vbi_proxy_stop_acquisition", len(frees), 2)
    ok = bool(stops)
    for b, i in frees:
        # every path to the free passes the use_thread test whose true edge calls stop_acq_thread
        guarded = False
        for sb, si in stops:
            ats = atoms.atoms_at(f, si)
            if any(a.cmp_const("!=", "PROXY_DEV.use_thread", 0) for a in ats):
                # the test block dominates the free
                for src, lab, cond in flow.dominating_edges(f, sb):
                    if cond is not None and "PROXY_DEV.use_thread" in atoms.Operand(f, cond).fields and flow.dominates(f, src, b):
                        guarded = True
        ok = ok and guarded
    key = "RF-DOM:vbi_proxy_stop_acquisition:stop-before-free"
    if ok:
        run.holds("RF-DOM", key, "the acquisition thread is stopped (if there is one) on every path before the queues are freed", "%s:%d" % (f.file, f.line))
    else:
        run.violation("RF-DOM", key, "the frame queues are freed without first stopping the acquisition thread that uses them", "%s:%d" % (f.file, f.line))


def _send_sliced(ctx, run, f):
    run.touch(f)
    # the copy of one line into the outgoing message
    copies = [i for b, i in flow.all_events(f) if f.exprs[i]["k"] == "call"
              and f.exprs[i].get("callee") in ("memcpy", "__builtin___memcpy_chk", "__builtin_memcpy")
              and "PROXY_QUEUE_s.lines" in atoms.Operand(f, f.exprs[i]["c"][1]).fields]
    run.floor("line copies in vbi_proxyd_send_sliced", len(copies), 1)
    for i in copies:
        ats = atoms.atoms_at(f, i)
        ok = any(a.rel == "!=" and a.R is not None and a.R.const == 0 and a.L.has("PROXY_CLNT_s.all_services")
                 and ("vbi_sliced.id" in a.L.fields) and f.exprs[a.L.node]["k"] == "bin" and f.exprs[a.L.node]["op"] == "&"
                 for a in ats)
        key = "RF-DOM:vbi_proxyd_send_sliced:service-filter"
        if ok:
            run.holds("RF-DOM", key, "a line is copied only under `line.id & req->all_services`", ex.loc(f, i))
        else:
            run.violation("RF-DOM", key, "a captured line is copied into the client's indication without testing its service id "
                          "against the client's all_services: clients receive services they were not granted", ex.loc(f, i),
                          witness={"dominating": [repr(a) for a in ats]})


def _release(ctx, run, f):
    run.touch(f)
    # p_buf goes to the free list only under ref_count == 0
    sts = [i for b, i in flow.all_events(f) if atoms.store_to_field("PROXY_DEV.p_free")(f, i)]
    run.floor("free-list insertions in vbi_proxy_queue_release_sliced", len(sts), 1)
    for i in sts:
        ats = atoms.atoms_at(f, i)
        ok = any(a.cmp_const("==", "PROXY_QUEUE_s.ref_count", 0) for a in ats)
        if not ok:
            # or the count is zero there by the interval analysis (`ref_count = 0` on the last-reference branch)
            an = ctx.analysis(f)
            st = an.state_before(i) if an is not None else None
            nodes = [n_ for n_, e_ in enumerate(f.exprs) if e_["k"] == "mem" and e_["member"] == "ref_count" and e_.get("in") == "PROXY_QUEUE_s"]
            if st is not None and nodes and all(an.eval(st, n_) == (0, 0) for n_ in nodes[:1]):
                ok = True
        key = "RF-DOM:vbi_proxy_queue_release_sliced:free-at-zero"
        if ok:
            run.holds("RF-DOM", key, "a buffer is put on the free list only under ref_count == 0", ex.loc(f, i))
        else:
            run.violation("RF-DOM", key, "a buffer is put on the free list while other clients may still reference it", ex.loc(f, i))


def _forward(ctx, run, f):
    run.touch(f)
    incs = [i for b, i in flow.all_events(f) if f.exprs[i]["k"] in ("asg", "un")
            and atoms.store_to_field("PROXY_QUEUE_s.ref_count")(f, i)]
    run.floor("ref_count increments in vbi_proxyd_forward_data", len(incs), 1)
    for i in incs:
        ats = atoms.atoms_at(f, i)
        need = [("client is on this device", lambda a: a.eq_field("PROXY_CLNT_s.dev_idx")),
                ("client state is FORWARD", lambda a: a.rel == "==" and a.L.has("PROXY_CLNT_s.state")),
                ("client has services", lambda a: a.cmp_const("!=", "PROXY_CLNT_s.all_services", 0))]
        missing = [n for n, p in need if not any(p(a) for a in ats)]
        key = "RF-DOM:vbi_proxyd_forward_data:queue-for-subscribers"
        if missing:
            run.violation("RF-DOM", key, "a frame is queued for a client without: %s" % "; ".join(missing), ex.loc(f, i))
        else:
            run.holds("RF-DOM", key, "a frame is referenced for a client only when " + "; ".join(n for n, _ in need), ex.loc(f, i))


def _update_services(ctx, run, f):
    run.touch(f)
    F_ALL = "PROXY_CLNT_s.all_services"
    ors = []
    for b, i in flow.all_events(f):
        e = f.exprs[i]
        if e["k"] == "asg" and e["op"] == "|=":
            l = f.exprs[ex.skip(f, e["c"][0])]
            if l["k"] == "mem" and "%s.%s" % (l.get("in"), l["member"]) == F_ALL:
                ors.append((b, i))
    run.floor("all_services accumulations in vbi_proxyd_update_services", len(ors), 1)
    for b, i in ors:
        # a reset to 0 must lie on every path from the start of the per-client iteration to the accumulation:
        # i.e. some store all_services = 0 dominates the accumulation and is inside the same client loop
        lhs_path = ex.path(f, f.exprs[i]["c"][0])
        ok = False
        for b2 in f.blocks:
            if not flow.dominates(f, b2, b):
                continue
            for j in flow.events(f, b2):
                if atoms.store_to_field(F_ALL, 0)(f, j) and ex.path(f, flow.stores(f, j)[0][0]) == lhs_path:
                    # same client iteration: the innermost loop that contains the reset also contains the accumulation
                    h = loops.innermost(f, b2)
                    if h is None or b in loops.natural_loops(f)[h]:
                        ok = True
        key = "RF-CORR:vbi_proxyd_update_services:mask-rebuilt-from-zero"
        if ok:
            run.holds("RF-CORR", key, "`%s |= ...` is preceded (dominated) by `%s = 0` in the same client iteration" % (lhs_path, lhs_path),
                      ex.loc(f, i))
        else:
            run.violation("RF-CORR", key, "a client's all_services is OR-accumulated without being reset first: a service the client "
                          "dropped stays in its filter mask and keeps being delivered while another client still has it", ex.loc(f, i),
                          witness={"function": f.name})


def _close(ctx, run, f):
    run.touch(f)
    rel = [(b, i) for b, i in flow.all_events(f) if f.exprs[i]["k"] == "call"
           and f.exprs[i].get("callee") == "vbi_proxy_queue_release_sliced"]
    key = "RF-PAIR:vbi_proxyd_close:drain-client-queue"
    if not rel:
        run.violation("RF-PAIR", key, "vbi_proxyd_close does not release the buffers queued for the closing client", "%s:%d" % (f.file, f.line))
        return
    for b, i in rel:
        h = loops.innermost(f, b)
        cond_ok = False
        if h is not None:
            t = f.blocks[h].term
            if t and "cond" in t:
                o = atoms.Operand(f, t["cond"])
                cond_ok = "PROXY_CLNT_s.p_sliced" in o.fields
        if h is not None and cond_ok:
            run.holds("RF-PAIR", key, "the release runs in a loop `while (req->p_sliced != NULL)`: every queued buffer loses this "
                      "client's reference", ex.loc(f, i))
        else:
            run.violation("RF-PAIR", key, "only one buffer is released when a client closes: the other frames queued for it keep a "
                          "reference nobody will drop, the queue fills up and capturing stops for every client", ex.loc(f, i),
                          witness={"function": f.name})


def _client_transient_states(ctx, run):
    P = ctx.prog
    waits = {v for k, v in P.enum_consts.items() if k.startswith("CLNT_STATE_WAIT")}
    if not waits:
        raise AnalysisBroken("CLNT_STATE_WAIT_* not found")
    REC, FLD = "vbi_proxy_client", "state"

    def stores_state(f, i):
        for lhs, var, op, rhs in flow.stores(f, i):
            if lhs is not None:
                l = f.exprs[ex.skip(f, lhs)]
                if l["k"] == "mem" and l.get("in") == REC and l["member"] == FLD:
                    return True
        e = f.exprs[i]
        if e["k"] == "call" and e.get("callee"):
            t = P.func_for(f, e["callee"])
            if t is not None and ("fld", REC, FLD) in ctx.sums.writes.get(t.key, set()):
                # only a callee that *always* leaves a settled state counts: the close / failure helpers
                return e["callee"] in ("proxy_client_close", "proxy_client_stop_acq")
        return False
    n = 0
    for f in P.funcs:
        if f.file != "src/proxy-client.c":
            continue
        for bid, i in flow.all_events(f):
            e = f.exprs[i]
            if e["k"] != "asg" or e["op"] != "=":
                continue
            l = f.exprs[ex.skip(f, e["c"][0])]
            if not (l["k"] == "mem" and l.get("in") == REC and l["member"] == FLD):
                continue
            c = ex.const(f, e["c"][1])
            if c not in waits:
                continue
            n += 1
            run.touch(f)
            ok = _settles_before_success(f, i, stores_state)
            key = "RF-CORR:%s:transient-state-left:%s" % (f.name, c)
            if ok:
                run.holds("RF-CORR", key, "after `%s` every path to the exit assigns the state again (or closes the connection)"
                          % ex.pretty(f, i), ex.loc(f, i))
            else:
                run.violation("RF-CORR", key, "a path from `%s` returns with the client still in that transient state: every later "
                              "vbi_capture_pull/read on this client fails although the daemon keeps forwarding its frames"
                              % ex.pretty(f, i), ex.loc(f, i), witness={"function": f.name})
    run.floor("transient client states entered", n, 3)


def _settles_before_success(f, from_eid, pred):
    """Every path from just after `from_eid` to a return that does not report failure (a literal
    FALSE / 0 - the static helpers' callers close the connection on failure) executes an event
    satisfying pred."""
    bid0, n0 = flow.elem_pos(f)[from_eid]
    for i in f.blocks[bid0].elems[n0 + 1:]:
        if flow.is_event(f, i) and pred(f, i):
            return True
    hit = {b for b, i in flow.all_events(f) if pred(f, i)}
    seen, stack = set(), [s for s, _ in f.edges(bid0)]
    while stack:
        b = stack.pop()
        if b in seen or b in hit:
            continue
        seen.add(b)
        for i in flow.events(f, b):
            e = f.exprs[i]
            if e["k"] == "ret":
                v = ex.const(f, e["c"][0]) if e.get("c") else None
                if v != 0:
                    return False
        if b == f.exit:
            continue
        nxt = [s for s, _ in f.edges(b)]
        if f.exit in nxt and not any(f.exprs[i]["k"] == "ret" for i in flow.events(f, b)):
            return False            # falls off the end of a void function
        stack.extend(s for s in nxt if s != f.exit)
    return True


def _res_positive(ats):
    """`res >= 0` together with `res != 0` (what `if (res < 0) ...; else if (res != 0)` leaves) is res > 0."""
    lo, ne = None, set()
    for a in ats:
        if a.R is None or a.R.const is None or a.L.locals != {"res"} or a.L.fields or a.L.calls:
            continue
        c = a.R.const
        if a.rel == ">=":
            lo = c if lo is None else max(lo, c)
        elif a.rel == ">":
            lo = c + 1 if lo is None else max(lo, c + 1)
        elif a.rel == "!=":
            ne.add(c)
    while lo is not None and lo in ne:
        lo += 1
    return lo is not None and lo >= 1


def _publish_only_frames(ctx, run, f):
    run.touch(f)
    n = 0
    for bid, i in flow.all_events(f):
        e = f.exprs[i]
        is_pub = False
        for lhs, var, op, rhs in flow.stores(f, i) if flow.is_event(f, i) else []:
            if lhs is not None:
                l = f.exprs[ex.skip(f, lhs)]
                if l["k"] == "mem" and l["member"] in ("ref_count", "p_sliced"):
                    is_pub = True
        if not is_pub:
            continue
        n += 1
        ats = atoms.atoms_at(f, i)
        ok = any(a.rel == ">" and a.R is not None and a.R.const == 0 and "res" in a.L.locals for a in ats) or \
            any(a.rel == ">=" and a.R is not None and a.R.const == 1 and "res" in a.L.locals for a in ats) or \
            _res_positive(ats)
        key = "RF-DOM:vbi_proxyd_forward_data:publish-needs-frame"
        if ok:
            run.holds("RF-DOM", key, "`%s` is dominated by res > 0" % ex.pretty(f, i)[:40], ex.loc(f, i))
        else:
            run.violation("RF-DOM", key, "`%s` hands the buffer to the clients without `res > 0`: when the capture read returns 0 (device "
                          "readable, no complete frame) the recycled buffer - an old frame - is delivered again" % ex.pretty(f, i)[:40],
                          ex.loc(f, i), witness={"dominating": [repr(a) for a in ats]})
    run.floor("buffer publication stores in vbi_proxyd_forward_data", n, 2)


def _accepted_socket_nonblocking(ctx, run):
    f = ctx.prog.need("vbi_proxy_msg_accept_connection", "src/proxy-msg.c")
    run.touch(f)
    acc = None
    for bid, i in flow.all_events(f):
        for lhs, var, op, rhs in flow.stores(f, i):
            if rhs is None:
                continue
            r = f.exprs[ex.skip(f, rhs)]
            while r["k"] == "cast":
                r = f.exprs[ex.skip(f, r["c"][0])]
            if r["k"] == "call" and r.get("callee") == "accept":
                acc = var["name"] if var is not None else f.exprs[ex.skip(f, lhs)].get("name")
    if acc is None:
        raise AnalysisBroken("vbi_proxy_msg_accept_connection: accept() result variable not found")
    n = 0
    for bid, i in flow.all_events(f):
        e = f.exprs[i]
        if e["k"] == "call" and e.get("callee") == "fcntl" and len(e["c"]) >= 3 and "O_NONBLOCK" in ex.pretty(f, e["c"][2]) or \
                (e["k"] == "call" and e.get("callee") == "fcntl" and len(e["c"]) >= 3 and ex.const(f, e["c"][2]) == 0o4000):
            n += 1
            a0 = f.exprs[ex.skip(f, e["c"][0])]
            while a0["k"] == "cast":
                a0 = f.exprs[ex.skip(f, a0["c"][0])]
            key = "RF-DEP:vbi_proxy_msg_accept_connection:nonblocking-accepted-socket"
            if a0.get("name") == acc:
                run.holds("RF-DEP", key, "O_NONBLOCK is set on `%s`, the descriptor accept() returned" % acc, ex.loc(f, i))
            else:
                run.violation("RF-DEP", key, "O_NONBLOCK is set on `%s`, not on the accepted socket `%s`: client sockets stay blocking, "
                              "and one client that stops reading blocks the daemon's main loop in send() - no other client gets "
                              "frames" % (a0.get("name"), acc), ex.loc(f, i))
    run.floor("O_NONBLOCK fcntl calls in accept_connection", n, 1)


def _count_follows_list(ctx, run):
    """RF-CORR: vbi_proxy_queue_allocate() decides how many frame buffers to allocate from local
    counts of the free and the used list.  A count taken by walking a list is stale once that
    list is changed wholesale: after vbi_proxy_queue_free_all (&...->p_free) the first access to
    the count is its reset, after vbi_proxy_queue_add_free() it is an increment.  With a stale
    count the top-up loop allocates nothing and the device is left without buffers: every
    remaining client stops receiving frames."""
    from . import C11
    from .. import loops
    P = ctx.prog
    f = P.need("vbi_proxy_queue_allocate", UNIT)
    run.touch(f)
    L = loops.natural_loops(f)
    counters = {}           # local -> list member it counts
    for head, body in L.items():
        members = set()
        for b in body:
            for i in f.blocks[b].elems:
                e = f.exprs[i]
                if e["k"] == "mem" and e.get("in") == "PROXY_DEV" and e["member"] in ("p_free", "p_sliced"):
                    members.add(e["member"])
        # the initialisation of the cursor sits before the loop head: look at the head's predecessors too
        for b, blk in f.blocks.items():
            if head in [s for s, _ in f.edges(b)] and b not in body:
                for i in blk.elems:
                    e = f.exprs[i]
                    if e["k"] == "mem" and e.get("in") == "PROXY_DEV" and e["member"] in ("p_free", "p_sliced"):
                        members.add(e["member"])
        if len(members) != 1:
            continue
        for b in body:
            for i in flow.events(f, b):
                for lhs, var, op, rhs in flow.stores(f, i):
                    if lhs is not None and op in ("+=", "++"):
                        l = f.exprs[ex.skip(f, lhs)]
                        if l["k"] == "ref" and l.get("dk") == "local":
                            counters[l["name"]] = sorted(members)[0]
    if "p_free" not in counters.values():
        raise AnalysisBroken("vbi_proxy_queue_allocate: the free-list count was not recognised (%s)" % counters)
    n = 0
    for cname, member in sorted(counters.items()):
        for bid, i in flow.all_events(f):
            e = f.exprs[i]
            if e["k"] != "call":
                continue
            cal = e.get("callee")
            if cal == "vbi_proxy_queue_free_all" and e.get("c") and ex.pretty(f, e["c"][0]).endswith(member):
                want = "reset"
            elif cal == "vbi_proxy_queue_add_free" and member == "p_free":
                want = "incr"
            else:
                continue
            n += 1
            key = "RF-CORR:vbi_proxy_queue_allocate:%s-after-%s" % (cname, cal)
            use = C11._use_after(f, (bid, i), cname)
            nxt = _next_store(f, (bid, i), cname)
            ok = use is None and nxt is not None and all(
                (want == "reset" and op == "=" and ex.const(f, rhs) == 0) or (want == "incr" and op in ("+=", "++"))
                for op, rhs in nxt)
            if ok:
                run.holds("RF-CORR", key, "after `%s` the count `%s` is %s before it is read" % (ex.pretty(f, i)[:50], cname,
                          "set to 0" if want == "reset" else "incremented"), ex.loc(f, i))
            else:
                run.violation("RF-CORR", key, "after `%s` the count `%s` of the %s list is read%s without having been %s: the "
                              "top-up loop works with the number of buffers that were just released, allocates too few (none), and "
                              "the clients that stay connected get no more frames" % (
                                  ex.pretty(f, i)[:50], cname, member, (" (`%s`)" % ex.pretty(f, use)[:30]) if use is not None else "",
                                  "reset to 0" if want == "reset" else "incremented"), ex.loc(f, i))
    run.floor("list changes followed by a count update in vbi_proxy_queue_allocate", n, 2)


def _next_store(f, c, name):
    """(op, rhs) of the first store(s) to local `name` reachable from just after event c."""
    pos = flow.elem_pos(f)
    cb, ci = c
    out, seen = [], set()

    def scan(bid, start):
        for j in f.blocks[bid].elems[start:]:
            if flow.is_event(f, j):
                for lhs, var, op, rhs in flow.stores(f, j):
                    if lhs is not None:
                        l = f.exprs[ex.skip(f, lhs)]
                        if l["k"] == "ref" and l.get("name") == name:
                            out.append((op, rhs))
                            return True
        return False
    if scan(cb, pos[ci][1] + 1):
        return out
    st = [s for s, _ in f.edges(cb)]
    while st:
        b = st.pop()
        if b in seen:
            continue
        seen.add(b)
        if scan(b, 0):
            continue
        st.extend(s for s, _ in f.edges(b))
    return out or None


def _byte_offsets_on_byte_pointers(ctx, run):
    """RF-UNIT: the message I/O state counts in bytes (writeOff, readOff, writeLen, readLen).
    Adding such an offset to a pointer whose pointee is larger than one byte scales it by the
    pointee size: the continuation of a partially written message is then taken from the wrong
    address (EFAULT / foreign bytes on the wire) - only when a send() was partial, i.e. for a
    slow client with large raw frames."""
    P = ctx.prog
    n = 0
    for f in P.funcs:
        if f.file not in ("src/proxy-msg.c", "daemon/proxyd.c", "src/proxy-client.c"):
            continue
        for i, e in enumerate(f.exprs):
            if not (e["k"] == "bin" and e["op"] in ("+", "-")) and e["k"] != "idx":
                continue
            a, b = e["c"][0], e["c"][1]
            for ptr, off in ((a, b), (b, a)):
                pe = f.exprs[ptr]
                t = pe.get("t") or ""
                if not t.rstrip().endswith("*"):
                    continue
                o = f.exprs[ex.skip(f, off)]
                while o["k"] == "cast":
                    o = f.exprs[ex.skip(f, o["c"][0])]
                if not (o["k"] == "mem" and o["member"] in ("writeOff", "readOff") and o.get("in") == "VBIPROXY_MSG_STATE"):
                    continue
                n += 1
                run.touch(f)
                base = t.replace("const", "").replace("*", "").strip()
                key = "RF-UNIT:%s:byte-offset@%s" % (f.name, o["member"])
                if base in ("char", "unsigned char", "uint8_t", "signed char", "void"):
                    run.holds("RF-UNIT", key, "`%s`: byte offset added to a byte pointer" % ex.pretty(f, i)[:50], ex.loc(f, i))
                else:
                    run.violation("RF-UNIT", key, "`%s` adds the byte offset %s to a `%s`: the offset is scaled by sizeof (%s), so a "
                                  "message that could not be sent in one piece continues from the wrong address"
                                  % (ex.pretty(f, i)[:60], o["member"], t, base), ex.loc(f, i))
    run.floor("byte offsets of the message state used in pointer arithmetic", n, 2)


def _full_frame_admitted(ctx, run):
    """RF-ASSERT: a frame buffer has room for max_lines sliced lines and the capture device may
    deliver that many (every line of the device range decoded - always so for the one-line range
    of a WSS or VPS only client).  The daemon's assertion on a freshly read frame therefore fails
    only for line_count > max_lines; a strict `<` aborts the daemon, for all clients, on a
    perfectly good frame."""
    P = ctx.prog
    f = P.need("vbi_proxyd_forward_data", UNIT)
    run.touch(f)
    n = 0
    for bid, i in flow.all_events(f):
        e = f.exprs[i]
        if e["k"] != "call" or e.get("callee") != "__assert_fail":
            continue
        # the assertion's own condition: the innermost branch in front of the __assert_fail call (an assertion further
        # down is dominated by the *success* of this one, which is not its failure condition)
        de = flow.dominating_edges(f, bid)
        own = atoms.atoms_of(f, de[0][2], de[0][1] == "T", de[0][0], de[0][1]) if de and de[0][2] is not None and de[0][1] in ("T", "F") else []
        for a in own:
            if a.R is None or a.R.const is not None:
                continue
            lc = a.L.has("PROXY_QUEUE.line_count") or a.L.has("PROXY_QUEUE_s.line_count") or "line_count" in a.L.text
            ml = "max_lines" in a.R.text
            if not (lc and ml):
                continue
            n += 1
            key = "RF-ASSERT:vbi_proxyd_forward_data:full-frame"
            if a.rel == ">":
                run.holds("RF-ASSERT", key, "the assertion fails only for line_count > max_lines", ex.loc(f, i))
            else:
                run.violation("RF-ASSERT", key, "the assertion on a captured frame fails already for line_count %s max_lines: a frame "
                              "that fills the device range (all lines decoded; the single line of a WSS-only client) aborts the "
                              "daemon and disconnects every client" % a.rel, ex.loc(f, i))
    run.floor("capacity assertions on a captured frame", n, 1)


def _served_by_own_services(ctx, run):
    """RF-WHO: what a client is sent - sliced lines or the raw image, and which lines - is decided
    by that client's own service set (req->all_services / req->services).  The device's union
    (proxy.dev[].all_services) says what is *captured*; deciding the message form from it sends a
    sliced-only client the raw-format indication as soon as some other client asks for raw data,
    and the client library drops the connection."""
    P = ctx.prog
    f = P.need("vbi_proxyd_send_sliced", UNIT)
    run.touch(f)
    n = 0
    bad = []
    pos = flow.elem_pos(f)
    for i, e in enumerate(f.exprs):
        if e["k"] != "mem" or e["member"] != "all_services" or pos.get(i) is None:
            continue
        n += 1
        if e.get("in") not in ("PROXY_CLNT_s", "PROXY_CLNT"):
            bad.append(i)
    key = "RF-WHO:vbi_proxyd_send_sliced:own-services"
    if bad:
        run.violation("RF-WHO", key, "vbi_proxyd_send_sliced() reads `%s` (the device's union of services) to decide what this "
                      "client is sent: with a raw-VBI client on the same device a sliced-only client receives raw-format "
                      "indications instead of its lines" % ex.pretty(f, bad[0])[:50], ex.loc(f, bad[0]))
    else:
        run.holds("RF-WHO", key, "%d reads of all_services, all of the client's own record" % n, "%s:%d" % (f.file, f.line))
    run.floor("service set reads in vbi_proxyd_send_sliced", n, 2)


def _header_complete_by_offset(ctx, run):
    """RF-DOM: a message may arrive in any number of pieces.  vbi_proxy_msg_handle_read() takes
    the message length from the header once the *accumulated* offset readOff has reached the
    header size - not once a single recv() returned that much: a header that arrives as 3 + 5
    bytes would never be recognised, readLen stays 0 and the connection starves (seen by the
    daemon and by the client library alike)."""
    P = ctx.prog
    f = P.need("vbi_proxy_msg_handle_read", "src/proxy-msg.c")
    run.touch(f)
    n = 0
    for bid, i in flow.all_events(f):
        for lhs, var, op, rhs in flow.stores(f, i):
            if lhs is None or op != "=" or rhs is None:
                continue
            l = f.exprs[ex.skip(f, lhs)]
            if not (l["k"] == "mem" and l["member"] == "readLen"):
                continue
            if not any(f.exprs[j]["k"] == "call" and f.exprs[j].get("callee") in ("ntohl", "__bswap_32", "__builtin_bswap32")
                       for j in ex.walk(f, rhs)) and "head" not in ex.pretty(f, rhs):
                continue
            n += 1
            ats = atoms.atoms_at(f, i)
            ok = any(a.rel in (">=", ">") and a.L.has("VBIPROXY_MSG_STATE.readOff") and a.R is not None and a.R.const is not None for a in ats)
            key = "RF-DOM:vbi_proxy_msg_handle_read:header-complete"
            if ok:
                run.holds("RF-DOM", key, "`%s` under readOff >= sizeof (header)" % ex.pretty(f, i)[:50], ex.loc(f, i))
            else:
                run.violation("RF-DOM", key, "`%s` is not guarded by the accumulated offset (readOff >= sizeof header): a header "
                              "delivered in two pieces is never completed, the message length stays unknown and the peer gets no "
                              "answer" % ex.pretty(f, i)[:50], ex.loc(f, i), witness={"dominating": [repr(a) for a in ats][:6]})
    run.floor("stores of the message length taken from the header", n, 1)
