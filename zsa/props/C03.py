"""C03 — Teletext transmission errors are corrected or contained."""
from .. import atoms, ex, flow, loops, neg, nowrite
from ..prog import AnalysisBroken

CLAUSE = ("vbi_teletext_desync marks the page in progress of every one of the raw_page[] magazines DISCARD; the formatter and "
          "the enhancement code read cached row bytes (data.lop.raw / data.unknown.raw) only as the argument of vbi_unpar8 / "
          "vbi_unham*; "
          "'uncorrectable => nothing changes', structurally: in every function of packet.c (and the Teletext formatter) no result "
          "of vbi_unham8/16p/24p or vbi_unpar8 reaches a store into decoder/cache state, or a left shift, before a dominating "
          "`< 0` test of it or of a bitwise-OR accumulation containing it (a sum or a mask is not a test), and none is dropped "
          "unexamined on a success path; the helpers whose failure the callers ignore (unham_page_link, unham_top_page_link) "
          "write nothing on failure; an uncorrectable header page number reaches vbi_teletext_desync and an uncorrectable "
          "subcode/control byte marks the page DISCARD before returning; in lop_parity_check the row copy into the cached page "
          "and the lop_packets bit are dominated by `n >= 0` where n OR-accumulates vbi_unpar8 over all 40 bytes of the row; the "
          "set of X/26 column modes whose Level 1 byte is exempted from the parity gate is the confirmed set; an uncorrectable "
          "X/26 triplet ends the packet (the error edge cannot reach the next iteration).")
CLAUSE = CLAUSE + (" An unchecked decode result is not handed to another function either, unless that function tests the "
                   "parameter for `< 0` before every other use (parse_mip_page's code).")
CLAUSE = CLAUSE + (" No decode-failure edge leaves an inner table loop of packet.c into the enclosing loop (cursor and index "
                   "would lose their lock step).")
CLAUSE = CLAUSE + (" No decoder call's result is discarded (in-place vbi_unpar included).")
CLAUSE = CLAUSE + (' An X/26 packet is appended only under equality of the collected triplet count with 13 x designation.')
NOT_DECIDED = ("that a single-bit error is corrected to the sent value (Hamming arithmetic, test-hamm's domain); display of the "
               "formatted page; X/26 designation continuity semantics beyond the error edge.")

UNIT = "src/packet.c"
# EN 300 706 Table 25/29: column-address triplet modes that put a character on the page
# and therefore come with a Level 1 fallback character; confirmed against lop_parity_check
# and teletext.c enhance() on the tree this check was written for.
PARITY_EXEMPT_MODES = {0x01, 0x02, 0x08, 0x09, 0x0B, 0x0D, 0x0F} | set(range(0x10, 0x20))


def run(ctx, run):
    P = ctx.prog
    # ---- RF-NEG over every function of packet.c with a decode call ----------------
    n_src = 0
    n_fn = 0
    for f in P.funcs:
        if f.file not in (UNIT, "src/teletext.c"):
            continue
        a = neg.Neg(ctx, f).run()
        if not a.n_sources:
            continue
        n_fn += 1
        n_src += a.n_sources
        run.touch(f)
        bad = False
        for eid, lhs, t in a.persistent_stores():
            if not t:
                continue
            bad = True
            key = "RF-NEG:%s:store:%s" % (f.name, _field(f, lhs))
            run.violation("RF-NEG", key, "`%s` stores a value that depends on an unchecked decode result: %s"
                          % (ex.pretty(f, eid)[:90], a.describe(t)[:300]), ex.loc(f, eid),
                          witness={"function": f.name, "store": ex.pretty(f, eid), "sources": a.describe(t)})
        for node, t in neg.shift_sinks(a):
            bad = True
            run.violation("RF-NEG", "RF-NEG:%s:shift" % f.name, "`%s` left-shifts a decode result that may be -1 (undefined in ISO C; "
                          "UBSan: left shift of negative value): %s" % (ex.pretty(f, node)[:70], a.describe(t)[:200]), ex.loc(f, node),
                          witness={"function": f.name, "expr": ex.pretty(f, node)})
        for call, k, t in neg.call_arg_sinks(a):
            key = "RF-NEG:%s:arg:%s" % (f.name, f.exprs[call].get("callee"))
            if neg.callee_tests_param(ctx, f, call, k):
                run.holds("RF-NEG", key, "`%s` hands the callee an unchecked decode result; the callee tests that parameter for "
                          "`< 0` before every other use" % ex.pretty(f, call)[:70], ex.loc(f, call))
                continue
            bad = True
            run.violation("RF-NEG", key, "`%s` hands %s() a decode result that may be -1 (uncorrectable byte) and the callee does not "
                          "test it: the damaged packet is processed as if it carried that value: %s"
                          % (ex.pretty(f, call)[:80], f.exprs[call].get("callee"), a.describe(t)[:200]), ex.loc(f, call),
                          witness={"function": f.name, "call": ex.pretty(f, call), "argument": k})
        for call in neg.discarded_results(a):
            bad = True
            run.violation("RF-NEG", "RF-NEG:%s:discarded:%s" % (f.name, f.exprs[call].get("callee")),
                          "`%s` throws the decoder's verdict away: the bytes are stripped of their parity bit whether or not the "
                          "parity was right, so a damaged character replaces the good one as a different character"
                          % ex.pretty(f, call)[:60], ex.loc(f, call))
        for eid, name in neg.unexamined(a):
            bad = True
            run.violation("RF-NEG", "RF-NEG:%s:unexamined:%s" % (f.name, name), "the value decoded by `%s` can reach a successful "
                          "return (or its next assignment) without being examined" % ex.pretty(f, eid)[:70], ex.loc(f, eid))
        if not bad:
            run.holds("RF-NEG", "RF-NEG:%s" % f.name, "%d decode call site(s); every state store they feed is behind a `< 0` test of the "
                      "result or of an OR-accumulation, no shift of an untested result, none dropped" % a.n_sources,
                      "%s:%d" % (f.file, f.line))
    run.floor("decode call sites in packet.c/teletext.c", n_src, 45)
    run.floor("functions with decode calls", n_fn, 18)
    _neg_selftest(ctx, run)

    # ---- RF-NOWRITE on the link helpers ----------------------------------------------------
    for name in ("unham_page_link", "unham_top_page_link"):
        f = P.need(name, UNIT)
        run.touch(f)
        viol, n_false, n_out, sp = nowrite.check(ctx, f)
        key = "RF-NOWRITE:%s" % name
        if viol:
            run.violation("RF-NOWRITE", key, "%s writes through its output before a failing Hamming check: callers that ignore its "
                          "failure (parse_27) keep a half-written link" % name, "%s:%d" % (f.file, f.line))
        elif n_false == 0:
            raise AnalysisBroken("%s has no failing exit any more" % name)
        else:
            run.holds("RF-NOWRITE", key, "%d FALSE exit(s), none after a write through the link" % n_false, "%s:%d" % (f.file, f.line))

    # ---- RF-DOM: header failure handling ------------------------------------------------------
    f = P.need("vbi_decode_teletext", UNIT)
    run.touch(f)
    _header(ctx, run, f)
    _x26_loop(ctx, run, f)

    # ---- parity gate -------------------------------------------------------------------------------
    _parity_gate(ctx, run, P.need("lop_parity_check", UNIT))

    # ---- desync discards every magazine's page in progress ------------------------------------------
    _desync_covers_all(ctx, run, P.need("vbi_teletext_desync", UNIT))

    # ---- display side: cached row bytes only through the parity / Hamming decoders -------------------
    _raw_bytes_decoded(ctx, run)
    _same_header_parity(ctx, run, P.need("same_header", UNIT))
    neg.helper_contract(ctx, run)
    _lockstep_exit(ctx, run)


def _field(f, lhs):
    l = f.exprs[ex.skip(f, lhs)]
    while l["k"] == "idx":
        l = f.exprs[ex.skip(f, l["c"][0])]
    return l.get("member") or ex.pretty(f, lhs)[:30]


def _neg_selftest(ctx, run):
    from .. import selftest
    P2 = selftest.load_positive("neg_pos.c")
    c2 = selftest.Ctx(P2)
    res = {}
    for fn in ("bad_sum", "bad_unchecked", "bad_loop", "good_or", "good_each"):
        a = neg.Neg(c2, P2.need(fn)).run()
        res[fn] = any(t for _, _, t in a.persistent_stores())
    if res != {"bad_sum": True, "bad_unchecked": True, "bad_loop": True, "good_or": False, "good_each": False}:
        raise AnalysisBroken("self-test failed: RF-NEG on selftest/pos/neg_pos.c gave %s" % res)
    run.extra["positive_example_neg"] = "selftest/pos/neg_pos.c: 3 bad shapes reported, 2 good shapes silent"


def _header(ctx, run, f):
    # (1) desync on an uncorrectable page number
    calls = [i for bid, i in flow.all_events(f) if f.exprs[i]["k"] == "call" and f.exprs[i].get("callee") == "vbi_teletext_desync"]
    ok = False
    for i in calls:
        for a in atoms.atoms_at(f, i):
            if a.rel == "<" and a.R is not None and a.R.const == 0 and ("vbi_unham16p" in a.L.calls or a.L.held == "vbi_unham16p"):
                ok = True
    key = "RF-DOM:vbi_decode_teletext:header-desync"
    if ok:
        run.holds("RF-DOM", key, "vbi_teletext_desync() is called on the failing edge of the header page-number decode", ex.loc(f, calls[0]))
    else:
        run.violation("RF-DOM", key, "no vbi_teletext_desync() call is dominated by the failing (`< 0`) edge of the header page-number "
                      "decode: an uncorrectable header no longer abandons the pages in progress", "%s:%d" % (f.file, f.line))
    # (2) DISCARD before `return FALSE` on an uncorrectable subcode / control byte
    found = False
    for bid, i in flow.all_events(f):
        e = f.exprs[i]
        if e["k"] != "ret" or not e.get("c") or ex.const(f, e["c"][0]) != 0:
            continue
        ats = atoms.atoms_at(f, i)
        # the return that follows the (subpage | flags) < 0 test
        hit = [a for a in ats if a.rel == "<" and a.R is not None and a.R.const == 0 and not a.L.calls and len(a.L.locals) >= 2
               and f.exprs[a.L.node]["k"] == "bin" and f.exprs[a.L.node]["op"] == "|"]
        if not hit and not any(_is_or_lt0_edge(f, i)):
            continue
        found = True
        blk = flow.elem_pos(f)[i][0]
        st = [j for j in f.blocks[blk].elems if atoms.store_to_field("cache_page.function")(f, j)]
        key = "RF-DOM:vbi_decode_teletext:header-discard"
        if st:
            run.holds("RF-DOM", key, "the page is marked DISCARD before `return FALSE` on an uncorrectable subcode/control byte", ex.loc(f, i))
        else:
            run.violation("RF-DOM", key, "`return FALSE` on an uncorrectable subcode/control byte without marking the open page DISCARD: "
                          "later rows would be collected into a page whose header was not understood", ex.loc(f, i))
    if not found:
        # the decode moved into a helper that N3 inlined: its `return FALSE` is a store of 0 into the result temporary;
        # the page must be marked DISCARD on every path from there to the function's exit
        for bid, i in flow.all_events(f):
            e = f.exprs[i]
            if not (e["k"] == "asg" and e.get("inl_ret") and ex.const(f, e["c"][1]) == 0):
                continue
            if not any(_is_or_lt0_edge(f, i)):
                # a single `< 0` test of a decode result leading here counts as well
                ok1 = False
                b0 = flow.elem_pos(f)[i][0]
                for p_ in f.blocks[b0].preds:
                    for s_, lab in f.edges(p_):
                        if s_ == b0:
                            for a in atoms.edge_atoms(f, p_, lab):
                                if a.rel == "<" and a.R is not None and a.R.const == 0 and (a.L.calls & set(neg.SOURCES) or
                                                                                             any(_assigned_from_decoder(f, n_) for n_ in a.L.locals)):
                                    ok1 = True
                if not ok1:
                    continue
            found = True
            okp, _ = atoms.must_pass(f, i, atoms.store_to_field("cache_page.function"))
            key = "RF-DOM:vbi_decode_teletext:header-discard"
            if okp:
                run.holds("RF-DOM", key, "after the (inlined) header decode failed the page is marked DISCARD before the function returns",
                          ex.loc(f, i))
            else:
                run.violation("RF-DOM", key, "the header's subcode / control decode fails (`%s`, inlined from %s) and a path returns "
                              "without marking the open page DISCARD: later rows are collected into a page whose header was not "
                              "understood" % (ex.pretty(f, i)[:50], e.get("inl")), ex.loc(f, i), witness={"function": f.name})
    if not found:
        raise AnalysisBroken("vbi_decode_teletext: the (subcode | control) < 0 exit was not found")


def _is_or_lt0_edge(f, ret):
    """The return sits in the block entered through `page == 0xFF || (x | y) < 0` - or through separate `< 0` tests
    of two or more decode results (`x < 0 || y < 0 || z < 0`)."""
    bid = flow.elem_pos(f)[ret][0]
    singles = set()
    for p in f.blocks[bid].preds:
        for s_, lab in f.edges(p):
            if s_ != bid:
                continue
            for a in atoms.edge_atoms(f, p, lab):
                if a.rel == "<" and a.R is not None and a.R.const == 0 and not a.L.calls and not a.L.fields and len(a.L.locals) == 1:
                    nm = sorted(a.L.locals)[0]
                    if _assigned_from_decoder(f, nm):
                        singles.add(nm)
    if len(singles) >= 2:
        yield True
    for p in f.blocks[bid].preds:
        t = f.blocks[p].term
        if t and "cond" in t:
            for n in ex.walk(f, t["cond"]):
                e = f.exprs[n]
                if e["k"] == "bin" and e["op"] == "<" and ex.const(f, e["c"][1]) == 0:
                    l = f.exprs[ex.skip(f, e["c"][0])]
                    if l["k"] == "bin" and l["op"] == "|":
                        yield True


def _x26_loop(ctx, run, f):
    """The loop that appends X/26 triplets: the `t < 0` edge leaves the loop."""
    found = 0
    for head, body in loops.natural_loops(f).items():
        appends = [i for b in body for i in flow.events(f, b) if atoms.store_to_field("ttx_lop.enh")(f, i)
                   or atoms.store_to_field("anon.enh")(f, i) or _stores_member(f, i, "enh")]
        if not appends:
            continue
        srcs = [i for b in body for i in flow.events(f, b) if f.exprs[i]["k"] == "call" and f.exprs[i].get("callee") == "vbi_unham24p"]
        if not srcs:
            continue
        found += 1
        # the edges `t < 0` inside the body
        bad = None
        n_edges = 0
        for b in body:
            t = f.blocks[b].term
            if not t or "cond" not in t:
                continue
            for s, lab in f.edges(b):
                for a in atoms.edge_atoms(f, b, lab):
                    if a.rel == "<" and a.R is not None and a.R.const == 0 and (("vbi_unham24p" in a.L.calls) or
                                                                                _local_from(f, a.L, "vbi_unham24p")):
                        n_edges += 1
                        # from s, is the loop head reachable without leaving the body?
                        seen = set()
                        st = [s]
                        while st:
                            n = st.pop()
                            if n in seen or n not in body:
                                continue
                            if n == head:
                                bad = b
                                break
                            seen.add(n)
                            st.extend(x for x, _ in f.edges(n))
        key = "RF-DOM:vbi_decode_teletext:x26-error-ends-packet"
        loc = ex.loc(f, srcs[0])
        if n_edges == 0:
            run.violation("RF-DOM", key, "the X/26 triplet loop stores triplets without testing the vbi_unham24p result", loc)
        elif bad is not None:
            run.violation("RF-DOM", key, "after an uncorrectable X/26 triplet the loop goes on to the next triplet: the triplets that "
                          "follow a lost row-address triplet are stored and later applied to the wrong row", loc,
                          witness={"function": f.name, "loop_head_block": head})
        else:
            run.holds("RF-DOM", key, "the `< 0` edge of vbi_unham24p in the X/26 loop leaves the loop (no later triplet of the packet "
                      "is stored)", loc)
        # continuity: the packet is appended only when the triplets collected so far are exactly those of the
        # designations before it (count == 13 x designation); `<=` also admits a packet whose predecessor was lost
        ats = atoms.dominating_atoms(f, head)
        cont = [a for a in ats if a.R is not None and any(x.endswith(".num_triplets") for x in (a.L.fields | a.R.fields))
                and (a.L.const is None and a.R.const is None)]
        key = "RF-CMP:vbi_decode_teletext:x26-continuity"
        if any(a.rel == "==" for a in cont):
            run.holds("RF-CMP", key, "the X/26 triplet loop is entered only under `%s`" % [a for a in cont if a.rel == "=="][0], loc)
        elif cont:
            run.violation("RF-CMP", key, "the X/26 triplet loop is entered under `%s`, not under equality of the triplet count and "
                          "13 x designation: a packet whose predecessor was lost is appended right behind the last good packet and "
                          "its column triplets are applied to the wrong row" % cont[0], loc,
                          witness={"function": f.name, "guard": repr(cont[0])})
        else:
            run.violation("RF-CMP", key, "the X/26 triplet loop is entered without comparing the triplet count with the packet's "
                          "designation: packets are appended out of sequence", loc)
    run.floor("X/26 triplet loops", found, 1)


def _stores_member(f, i, member):
    for lhs, var, op, rhs in flow.stores(f, i):
        if lhs is None:
            continue
        l = f.exprs[ex.skip(f, lhs)]
        while l["k"] == "idx":
            l = f.exprs[ex.skip(f, l["c"][0])]
        if l["k"] == "mem" and l["member"] == member:
            return True
        # `*dst++ = t` / `dst[k] = t` with a local cursor that was pointed into the member
        j = ex.skip(f, lhs)
        e = f.exprs[j]
        n = 0
        while e["k"] in ("un", "idx", "cast") and e.get("c") and n < 6:
            n += 1
            j = ex.skip(f, e["c"][0])
            e = f.exprs[j]
        if e["k"] == "ref" and e.get("dk") == "local" and e.get("t", "").rstrip().endswith("*"):
            for b2, i2 in flow.all_events(f):
                for lhs2, var2, op2, rhs2 in flow.stores(f, i2):
                    nm = var2["name"] if var2 is not None else (f.exprs[ex.skip(f, lhs2)].get("name")
                                                                if lhs2 is not None and f.exprs[ex.skip(f, lhs2)]["k"] == "ref" else None)
                    if nm == e["name"] and rhs2 is not None and any(x.endswith("." + member) for x in atoms.Operand(f, rhs2).fields):
                        return True
    return False


def _local_from(f, operand, callee):
    if not operand.locals or operand.fields:
        return False
    name = sorted(operand.locals)[0]
    for bid, i in flow.all_events(f):
        for lhs, var, op, rhs in flow.stores(f, i):
            nm = var["name"] if var is not None else None
            if lhs is not None:
                le = f.exprs[ex.skip(f, lhs)]
                if le["k"] == "ref":
                    nm = le["name"]
            if nm == name and rhs is not None:
                r = f.exprs[ex.skip(f, rhs)]
                if r["k"] == "call" and r.get("callee") == callee:
                    return True
    return False


def _parity_gate(ctx, run, f):
    run.touch(f)
    # (c) row copy dominated by n >= 0, n = OR over vbi_unpar8 of the whole row
    copies = [i for bid, i in flow.all_events(f) if f.exprs[i]["k"] == "call"
              and f.exprs[i].get("callee") in ("memcpy", "__builtin___memcpy_chk", "__builtin_memcpy")]
    marks = [i for bid, i in flow.all_events(f) if atoms.store_to_field("cache_page.lop_packets")(f, i)]
    run.floor("lop_parity_check row copies", len(copies), 1)
    run.floor("lop_parity_check lop_packets updates", len(marks), 1)
    a = neg.Neg(ctx, f).run()
    for i in copies + marks:
        ats = atoms.atoms_at(f, i)
        gate = [x for x in ats if x.rel == ">=" and x.R is not None and x.R.const == 0 and x.L.locals and not x.L.fields]
        key = "RF-DOM:lop_parity_check:%s" % ("row-copy" if i in copies else "lop_packets")
        ok = False
        why = "no dominating `n >= 0`"
        for g in gate:
            name = sorted(g.L.locals)[0]
            full, why = _accumulates_whole_row(ctx, f, name)
            if full:
                ok = True
        if ok:
            run.holds("RF-DOM", key, "`%s` is dominated by n >= 0 with n |= vbi_unpar8 (row[i]) for i = 0..39" % ex.pretty(f, i)[:50], ex.loc(f, i))
        else:
            run.violation("RF-DOM", key, "`%s` is not behind the parity gate (%s): a row with a parity error can replace a good cached row"
                          % (ex.pretty(f, i)[:50], why), ex.loc(f, i), witness={"function": f.name})
    # (d) exempt modes
    modes = set()
    n_sw = 0
    for bid, b in f.blocks.items():
        t = b.term
        if not t or t["kind"] != "SwitchStmt":
            continue
        o = atoms.Operand(f, t["cond"])
        if "ttx_triplet.mode" not in o.fields:
            continue
        # the switch of the column-address branch: dominated by address < 40
        if not any(x.rel == "<" and x.R is not None and x.R.const == 40 for x in atoms.dominating_atoms(f, bid)):
            continue
        n_sw += 1
        for s, lab in f.edges(bid):
            if isinstance(lab, tuple):
                # a case that regenerates parity: its block stores through vbi_par8
                if _reaches_par8(f, s):
                    modes |= set(range(lab[1], lab[2] + 1))
    run.floor("X/26 column-mode switch in lop_parity_check", n_sw, 1)
    key = "RF-TAB:lop_parity_check:parity-exempt-modes"
    if modes == PARITY_EXEMPT_MODES:
        run.holds("RF-TAB", key, "parity is regenerated exactly for the X/26 column modes that carry a fallback character: %s"
                  % _fmt(modes), "%s:%d" % (f.file, f.line))
    else:
        extra, missing = modes - PARITY_EXEMPT_MODES, PARITY_EXEMPT_MODES - modes
        run.violation("RF-TAB", key, "the X/26 column modes exempted from the parity gate differ from the confirmed set: %s%s. For an "
                      "added mode a damaged Level 1 byte has its parity regenerated and replaces the good cached row"
                      % ("added %s " % _fmt(extra) if extra else "", "dropped %s" % _fmt(missing) if missing else ""),
                      "%s:%d" % (f.file, f.line), witness={"added": sorted(extra), "dropped": sorted(missing)})


def _fmt(s):
    return "{" + ", ".join("0x%02X" % x for x in sorted(s)) + "}"


def _reaches_par8(f, bid):
    seen = set()
    st = [bid]
    while st:
        n = st.pop()
        if n in seen:
            continue
        seen.add(n)
        b = f.blocks[n]
        for i in b.elems:
            e = f.exprs[i]
            if e["k"] == "call" and e.get("callee") == "vbi_par8":
                return True
        # stay inside the case: stop at a break (unconditional edge to the switch exit is fine to follow one step)
        if b.term and b.term["kind"] == "BreakStmt":
            continue
        if b.label and "case" in (b.label or {}) and n != bid:
            # fell through into another case label: still the same statement list
            pass
        st.extend(s for s, _ in f.edges(n))
        if len(seen) > 60:
            break
    return False


def _accumulates_whole_row(ctx, f, name):
    """`name` is reset to 0 and then OR-ed with vbi_unpar8 (row[i]) in a loop
    whose trip count covers 0..39."""
    an = ctx.analysis(f)
    ok_or = False
    for head, body in loops.natural_loops(f).items():
        for b in body:
            for i in flow.events(f, b):
                e = f.exprs[i]
                if e["k"] == "asg" and e["op"] == "|=":
                    l = f.exprs[ex.skip(f, e["c"][0])]
                    if l["k"] == "ref" and l["name"] == name and "vbi_unpar8" in atoms.Operand(f, e["c"][1]).calls:
                        if loops.innermost(f, b) != head:
                            continue
                        okc, how = loops.covers(an, f, head, body, 40)
                        if okc and how in atoms.Operand(f, e["c"][1]).locals:
                            ok_or = True
                            continue
                        # loop runs i = 0 .. 39
                        t = f.blocks[head].term
                        if t and "cond" in t:
                            c = f.exprs[ex.skip(f, t["cond"])]
                            if c["k"] == "bin" and c["op"] == "<" and ex.const(f, c["c"][1]) == 40:
                                es = loops._entry_state(an, head, body)
                                ik = an.track_key(c["c"][0])
                                if es is not None and ik is not None and es.get(ik) == (0, 0):
                                    ok_or = True
                                else:
                                    return False, "the accumulation loop does not start at byte 0"
                            else:
                                return False, "the accumulation loop does not cover all 40 bytes"
    if not ok_or:
        return False, "n does not OR-accumulate vbi_unpar8 over the row"
    return True, ""


def _desync_covers_all(ctx, run, f):
    """The loop that sets raw_page[i].page->function = PAGE_FUNCTION_DISCARD visits every element."""
    from .. import ivl
    run.touch(f)
    an = ctx.analysis(f)
    found = False
    for bid, i in flow.all_events(f):
        e = f.exprs[i]
        if e["k"] != "asg" or e["op"] != "=":
            continue
        l = f.exprs[ex.skip(f, e["c"][0])]
        if not (l["k"] == "mem" and l["member"] == "function"):
            continue
        if "PAGE_FUNCTION_DISCARD" not in ex.pretty(f, e["c"][1]) and ex.const(f, e["c"][1]) != ctx.prog.enum_consts.get("PAGE_FUNCTION_DISCARD"):
            continue
        # the raw_page[...] subscript inside the lvalue
        for n in ex.walk(f, e["c"][0]):
            ne = f.exprs[n]
            if ne["k"] == "idx":
                ab = ivl.array_bound(f, n)
                b = f.exprs[ivl._strip_decay(f, ne["c"][0])]
                if ab is None or b.get("member") != "raw_page":
                    continue
                found = True
                st = an.state_before_expr(i)
                iv = ivl.eval_nowrap(an, st, ne["c"][1]) if st is not None else (None, None)
                key = "RF-IVL:vbi_teletext_desync:discard-covers-all-magazines"
                if iv == (0, ab[0] - 1):
                    run.holds("RF-IVL", key, "the discard loop stores raw_page[i].page->function = DISCARD for i in %s = every "
                              "element of raw_page[%d]" % (list(iv), ab[0]), ex.loc(f, i))
                else:
                    run.violation("RF-IVL", key, "the discard loop covers raw_page[%s..%s] only, raw_page has %d magazines: after an "
                                  "uncorrectable header the page in progress of the skipped magazine stays open and the rows that "
                                  "follow are stored into it" % (iv[0], iv[1], ab[0]), ex.loc(f, i),
                                  witness={"index_interval": list(iv), "elements": ab[0]})
    if not found:
        raise AnalysisBroken("vbi_teletext_desync: the DISCARD store over raw_page[] was not found")


DECODERS = ("vbi_unpar8", "vbi_unham8", "vbi_unham16p", "vbi_unham24p", "vbi_unpar", "vbi_unham16", "vbi_unham24")
RAW_READ_UNITS = ("src/teletext.c", "src/search.c", "src/exp-txt.c", "src/exp-html.c", "src/exp-vtx.c", "src/exp-gfx.c")


def _raw_bytes_decoded(ctx, run):
    P = ctx.prog
    n = 0
    for f in P.funcs:
        if f.file not in RAW_READ_UNITS:
            continue
        par = {}
        for j, e in enumerate(f.exprs):
            for c in e.get("c", []) or []:
                if isinstance(c, int) and c >= 0:
                    par.setdefault(c, j)
        reach = f.reachable_blocks()
        pos = flow.elem_pos(f)
        for i, e in enumerate(f.exprs):
            if e["k"] != "idx" or e.get("it") != [8, 0]:
                continue
            p = pos.get(i)
            if p is None or p[0] not in reach:
                continue
            # element of cache_page.data.<x>.raw[][]
            b = e
            is_raw = False
            for n2 in ex.walk(f, i):
                ne = f.exprs[n2]
                if ne["k"] == "mem" and ne["member"] == "raw" and ne.get("in", "").startswith(("ttx_lop", "anon", "cache_page")) :
                    is_raw = True
            if not is_raw:
                continue
            q = par.get(i)
            if q is None or not (f.exprs[q]["k"] == "cast" and f.exprs[q].get("ck") == "LValueToRValue"):
                continue            # address taken / store, not a value read
            n += 1
            run.touch(f)
            # climb through integer conversions to the consumer
            while q is not None and f.exprs[q]["k"] == "cast":
                q = par.get(q)
            qe = f.exprs[q] if q is not None else None
            key = "RF-WHO:%s:raw-byte-read" % f.name
            if qe is not None and qe["k"] == "call" and qe.get("callee") in DECODERS:
                run.holds("RF-WHO", key, "`%s` is read as the argument of %s()" % (ex.pretty(f, i)[:50], qe["callee"]), ex.loc(f, i),
                          nontrivial=False)
            else:
                run.violation("RF-WHO", key, "`%s` (a stored row byte, parity bit included) is used without vbi_unpar8()/vbi_unham*(): "
                              "a byte with a parity error - the header row is stored unchecked - shows as another character or "
                              "acts as a spacing attribute" % ex.pretty(f, i)[:60], ex.loc(f, i),
                              witness={"function": f.name, "consumer": ex.pretty(f, q)[:80] if q is not None else None})
    run.floor("reads of cached row bytes on the display side", n, 6)


def _same_header_parity(ctx, run, f):
    """The header comparison is conclusive only if *both* headers are free of parity errors: the error
    word must accumulate vbi_unpar8 over the bytes of the current and of the reference header."""
    run.touch(f)
    roots = set()
    for bid, i in flow.all_events(f):
        e = f.exprs[i]
        if e["k"] == "call" and e.get("callee") == "vbi_unpar8" and e.get("c"):
            r = ex.root(f, e["c"][0])
            if r is not None:
                roots.add(f.exprs[r]["name"])
    cur, ref = f.params[1]["name"], f.params[3]["name"]
    key = "RF-DEP:same_header:parity-of-both-headers"
    if {cur, ref} <= roots:
        run.holds("RF-DEP", key, "vbi_unpar8 is applied to the bytes of both `%s` and `%s`" % (cur, ref), "%s:%d" % (f.file, f.line))
    else:
        run.violation("RF-DEP", key, "the parity of the %s header is never tested (vbi_unpar8 is applied to %s only): a received "
                      "header with a parity error is compared as if it were intact, found different, and taken for another "
                      "station - the cache is flushed" % ("current" if cur not in roots else "reference", sorted(roots) or "nothing"),
                      "%s:%d" % (f.file, f.line), witness={"checked": sorted(roots)})


def _lockstep_exit(ctx, run):
    """RF-CORR: the table parsers walk a packet with a byte cursor and a table index that advance
    in lock step (`*raw++` in the body, `index++` in the loop increment), group by group in an
    outer loop.  An uncorrectable byte may skip its own entry (`continue`) or abandon the packet
    (`return`), but must not leave the inner loop into the outer one (`break`): the byte has been
    consumed, the index has not moved over the rest of the group, and every later entry of the
    packet is stored for the wrong page."""
    from .. import loops
    P = ctx.prog
    n = 0
    for f in P.funcs:
        if f.file != UNIT:
            continue
        L = loops.natural_loops(f)
        if len(L) < 2:
            continue
        for ih, inner in L.items():
            outers = [oh for oh, ob in L.items() if oh != ih and ih in ob and inner < ob]
            if not outers:
                continue
            oh = min(outers, key=lambda h: len(L[h]))
            outer = L[oh]
            for b in inner:
                t = f.blocks[b].term
                if not t or "cond" not in t:
                    continue
                for s, lab in f.edges(b):
                    if lab not in ("T", "F") or s in inner or s not in outer:
                        continue
                    # the edge leaves the inner loop but stays in the outer one: is it a decode-failure edge?
                    dec = False
                    for a in atoms.edge_atoms(f, b, lab):
                        if a.rel == "<" and a.R is not None and a.R.const == 0:
                            if a.L.calls & set(neg.SOURCES):
                                dec = True
                            for nm in a.L.locals:
                                if _assigned_from_decoder(f, nm):
                                    dec = True
                    if not dec:
                        continue
                    n += 1
                    run.touch(f)
                    run.violation("RF-CORR", "RF-CORR:%s:lockstep-exit" % f.name,
                                  "%s(): on an uncorrectable byte control leaves the inner loop (`break`) into the enclosing loop, "
                                  "which goes on consuming the packet: the byte cursor has passed the bad byte, the table index has "
                                  "not been advanced over the rest of the group, so the remaining entries of the packet are stored "
                                  "for the wrong pages - the error is not contained" % f.name,
                                  "%s:%d" % (f.file, t.get("line", f.line)))
    if n == 0:
        run.holds("RF-CORR", "RF-CORR:packet.c:lockstep-exit", "no decode-failure edge leaves an inner table loop into the enclosing "
                  "loop (a damaged entry is skipped with `continue` or the packet is abandoned)", UNIT, nontrivial=False)


def _assigned_from_decoder(f, name):
    for bid, i in flow.all_events(f):
        for lhs, var, op, rhs in flow.stores(f, i):
            if rhs is None:
                continue
            nm = var["name"] if var is not None else (f.exprs[ex.skip(f, lhs)].get("name") if f.exprs[ex.skip(f, lhs)]["k"] == "ref" else None)
            if nm != name:
                continue
            r = f.exprs[ex.skip(f, rhs)]
            while r["k"] == "cast":
                r = f.exprs[ex.skip(f, r["c"][0])]
            if r["k"] == "call" and r.get("callee") in neg.SOURCES:
                return True
    return False
