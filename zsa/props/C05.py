"""C05 — raw decoding stays inside the image and the output array
(structural part: capacity guards, slicer state completeness, provenance of
the CRI search limit)."""
from .. import atoms, ex, flow, loops
from ..prog import AnalysisBroken

CLAUSE = ("(RF-DOM) in vbi3_raw_decoder_decode every call of decode_pattern - the only writer of the output array, advancing it by "
          "at most one record per call - is dominated by `sliced < sliced_end` with sliced_end = sliced + max_lines; in "
          "vbi3_bit_slicer_slice/_slice_with_points the call through bs->func is dominated by the payload-vs-buffer_size test; "
          "slice() passes sizeof of the very array it passes; (RF-INIT) every field of the bit slicer that a function stored "
          "in bs->func reads is written on every TRUE path of vbi3_bit_slicer_set_params, and every failure path disarms the "
          "slicer (bs->func = null_function); (RF-DEP) the CRI search limit bs->cri_samples is computed from samples_per_line, "
          "sample_offset and a data length that depends on payload_bits AND frc_bits, sampling_rate and payload_rate, and the "
          "'does not fit' test on the same quantities dominates the TRUE return; the same for cri_bytes of the legacy "
          "vbi_bit_slicer_init; service admission is behind _vbi_sampling_par_valid_log.")
CLAUSE_EXTRA = (" (RF-WIDTH) every product with the sampling rate that feeds a search limit or bit step is computed in a 64 bit "
                "type; (RF-REGION) abstract interpretation of _vbi_sampling_par_valid_log over input regions: with interlaced "
                "data and field line counts that differ (or are both zero), and with zero bytes per line, the function cannot "
                "return TRUE (the decoder steps through both fields at twice the line pitch, so unequal counts read past the image).")
CLAUSE = CLAUSE + CLAUSE_EXTRA + (" (RF-IVL/RF-CUR) every subscript of a constant-size array and every dereference through a "
                                    "tracked pointer cursor in raw_decoder.c, bit_slicer.c, decoder.c and sampling_par.c is in bounds "
                                    "under the function's guards (named trusted sites excepted, listed in the evidence).")
SWEEP_TRUSTED = {
    "RF-IVL:find_service_par:_vbi_service_table[local]": "the loop ends at the table's terminator entry (id == 0), which the initialiser supplies",
    "RF-CUR:decode_pattern:jobs": "pattern entries are job numbers 1 ... n_jobs written by add_job_to_pattern (job index + 1)",
    "RF-CUR:vbi3_raw_decoder_add_services:jobs": "job = jobs + j, and `j >= _VBI3_RAW_DECODER_MAX_JOBS` breaks before job is used",
    "RF-IVL:vbi3_raw_decoder_remove_services:jobs[n_jobs]": "CLEAR (rd->jobs[rd->n_jobs]) follows --rd->n_jobs inside `while (job_num < rd->n_jobs)`: "
                                                             "n_jobs was at least 1 and at most 8 (job slots are only taken below MAX_JOBS)",
    "RF-IVL:vbi3_raw_decoder_sampling_point:points[local]": "nth_bit < n_points, which the slicer wrote through its out-parameter bounded by max_points = 512",
}
CLAUSE = CLAUSE + (" Block moves inside a row of predicted services stay inside the row; the sampling-point array is resized "
                   "after new sampling parameters are installed, not before.")
CLAUSE = CLAUSE + (' (RF-LIN) the stored CRI search limit satisfies cri_samples + sample_offset + data_samples <= samples_per_line as a linear inequality over the stored expression; each case of the payload format switch that writes through the output pointer leaves the switch (the payload is copied once); the buffer test does not round the payload down.')
NOT_DECIDED = ("whether the search limit is arithmetically sufficient (8.8 fixed-point phase/step arithmetic, the low-pass slicer's "
               "16-sample window, reads of r + bpp at the last payload bit): a relational numeric fact, outside static analysis "
               "without a solver; reads of the image as such (values).")

BS, RD, DEC = "src/bit_slicer.c", "src/raw_decoder.c", "src/decoder.c"


def run(ctx, run):
    P = ctx.prog
    _output_capacity(ctx, run, P.need("vbi3_raw_decoder_decode", RD), P.need("decode_pattern", RD))
    _slice_sizes(ctx, run, P.need("slice", RD))
    for name in ("vbi3_bit_slicer_slice", "vbi3_bit_slicer_slice_with_points"):
        _payload_guard(ctx, run, P.need(name, BS))
    _init(ctx, run)
    _provenance(ctx, run, P.need("vbi3_bit_slicer_set_params", BS))
    _legacy(ctx, run, P.need("vbi_bit_slicer_init", DEC))
    _wide_products(ctx, run)
    _validity_regions(ctx, run)
    _params_before_handover(ctx, run)
    _cri_count_unscaled(ctx, run)
    _admission(ctx, run)
    _pattern_row_moves(ctx, run)
    _debug_after_geometry(ctx, run)
    _payload_once(ctx, run)
    _constructor_reads_own_writes(ctx, run, P.need("vbi3_bit_slicer_set_params", BS))
    _legacy_payload_unit(ctx, run)
    from .. import sweep
    sweep.run(ctx, run, ["src/raw_decoder.c", "src/bit_slicer.c", "src/decoder.c", "src/sampling_par.c"], SWEEP_TRUSTED, 110, 1)

def _legacy_payload_unit(ctx, run):
    """The legacy slicer keeps d->payload in octets for the octet modes (endian 0, 1) and in *bits* for the bitwise modes
    (endian 2, 3).  Wherever decoder.c turns the payload into a bit count by scaling it with 8, both bitwise modes must be
    excluded on the way there - otherwise that mode samples and stores eight times the configured payload."""
    P = ctx.prog
    n = 0
    for f in P.funcs:
        if f.file != DEC or f.cfg_failed:
            continue
        for node, e in enumerate(f.exprs):
            if e["k"] != "bin" or e["op"] not in ("*", "<<"):
                continue
            k = ex.const(f, e["c"][1])
            if not ((e["op"] == "*" and k == 8) or (e["op"] == "<<" and k == 3)):
                continue
            if not any(f.exprs[m]["k"] == "mem" and f.exprs[m]["member"] == "payload" and f.exprs[m].get("in") == "vbi_bit_slicer"
                       for m in ex.walk(f, e["c"][0])):
                continue
            pos = flow.elem_pos(f).get(node)
            if pos is None or pos[0] not in f.reachable_blocks():
                continue
            n += 1
            run.touch(f)
            ats = atoms.dominating_atoms(f, pos[0])
            F = "vbi_bit_slicer.endian"
            excl = set()
            for a in ats:
                if not a.L.has(F) or a.R is None or a.R.const is None:
                    continue
                c = a.R.const
                for v in (2, 3):
                    if (a.rel == "<" and v >= c) or (a.rel == "<=" and v > c) or (a.rel == "==" and v != c) or (a.rel == "!=" and v == c) \
                            or (a.rel == ">" and v <= c) or (a.rel == ">=" and v < c):
                        excl.add(v)
            key = "RF-UNIT:%s:legacy-payload-scaled" % f.name
            if excl == {2, 3}:
                run.holds("RF-UNIT", key, "`%s` only in the octet modes" % ex.pretty(f, node)[:40], ex.loc(f, node))
            else:
                run.violation("RF-UNIT", key, "`%s` turns d->payload into a bit count although endian == %s is not excluded on the way "
                              "there: in that mode d->payload already counts bits, so eight times the payload is sampled and stored"
                              % (ex.pretty(f, node)[:40], " / ".join(str(v) for v in sorted({2, 3} - excl))), ex.loc(f, node),
                              witness={"function": f.name})
    if n == 0:
        run.holds("RF-UNIT", "RF-UNIT:decoder.c:legacy-payload-scaled", "decoder.c never scales d->payload by 8 (each mode has its own "
                  "loop over its own unit)", DEC, nontrivial=False)


def _constructor_reads_own_writes(ctx, run, f):
    """vbi3_bit_slicer_set_params() configures *bs from its arguments alone: a field of *bs it reads has been stored
    on every path to the read (else the value is the one the previous configuration left - e.g. the sample size of
    another pixel format in the byte offset of the first sample)."""
    run.touch(f)
    REC = "_vbi3_bit_slicer"
    stores = {}
    for bid, i in flow.all_events(f):
        for lhs, var, op, rhs in flow.stores(f, i):
            if lhs is None:
                continue
            l = f.exprs[ex.skip(f, lhs)]
            if l["k"] == "mem" and l.get("in") == REC and op == "=":
                stores.setdefault(l["member"], set()).add(bid)
    pos = flow.elem_pos(f)
    store_targets = set()
    for bid, i in flow.all_events(f):
        for lhs, var, op, rhs in flow.stores(f, i):
            if lhs is not None and op == "=":
                store_targets.add(ex.skip(f, lhs))
    n = 0
    reach = f.reachable_blocks()
    for node, e in enumerate(f.exprs):
        if e["k"] != "mem" or e.get("in") != REC or e["member"] in ("log",) or node in store_targets:
            continue
        if node not in pos or pos[node][0] not in reach:
            continue
        # address-of (passing &bs->log and the like) is not a read
        m = e["member"]
        bid, k = pos[node]
        n += 1
        before = any(ex.skip(f, lhs) != node and f.exprs[ex.skip(f, lhs)]["k"] == "mem" and f.exprs[ex.skip(f, lhs)]["member"] == m
                     for j in f.blocks[bid].elems[:k] if flow.is_event(f, j) for lhs, var, op, rhs in flow.stores(f, j) if lhs is not None)
        ok = before or bid not in flow.reach_from(f, f.entry, avoid=stores.get(m, set()) - {bid})
        if not ok and bid in stores.get(m, set()):
            ok = False
        key = "RF-INIT:vbi3_bit_slicer_set_params:reads-own-write:%s" % m
        if ok:
            run.holds("RF-INIT", key, "bs->%s is read only after this call stored it" % m, ex.loc(f, node), nontrivial=False)
        else:
            run.violation("RF-INIT", key, "bs->%s is read at a point some path reaches before this call has stored it: the value is "
                          "the one the previous vbi3_bit_slicer_set_params() left (0 on a fresh slicer) - e.g. the sample size of the "
                          "previously configured pixel format in the byte offset of the first sample" % m, ex.loc(f, node),
                          witness={"function": f.name, "field": m})
    run.floor("reads of slicer fields inside vbi3_bit_slicer_set_params", n, 2)


def _payload_once(ctx, run):
    """The slicers copy the payload in one of the formats bs->endian selects.  Each case of that switch
    writes up to `payload` units through the output pointer, so a case that falls into another one
    writes the payload twice: the second copy lands behind the buffer the caller sized for one."""
    P = ctx.prog
    REC = "_vbi3_bit_slicer"
    fns = [P.func(n, BS) for n in sorted(ctx.sums.slots.get(("fld", REC, "func"), set()))]
    fns.append(P.func("vbi3_bit_slicer_slice_with_points", BS))
    n_sw = 0
    for f in fns:
        if f is None or f.cfg_failed:
            continue
        reach = f.reachable_blocks()
        ptr_params = {p["name"] for p in f.params if p.get("t", "").rstrip().endswith("*")}

        def out_stores(bids):
            res = []
            for b in bids:
                for i in flow.events(f, b):
                    for lhs, var, op, rhs in flow.stores(f, i):
                        if lhs is None:
                            continue
                        le = f.exprs[ex.skip(f, lhs)]
                        if le["k"] in ("un", "idx"):
                            j = ex.skip(f, le["c"][0])
                            while f.exprs[j]["k"] in ("un", "cast") and f.exprs[j].get("c"):
                                j = ex.skip(f, f.exprs[j]["c"][0])          # *buffer++, *(uint8_t *) p
                            r = f.exprs[j]
                            if r["k"] == "ref" and r.get("name") in ptr_params and r.get("dk") == "param":
                                res.append(i)
            return res
        for sb in reach:
            t = f.blocks[sb].term
            if not t or t.get("kind") != "SwitchStmt" or "cond" not in t:
                continue
            if not any(f.exprs[n]["k"] == "mem" and f.exprs[n].get("in") == REC and f.exprs[n]["member"] == "endian"
                       for n in ex.walk(f, t["cond"])):
                continue
            n_sw += 1
            run.touch(f)
            targets = {s for s, lab in f.edges(sb) if isinstance(lab, tuple) or (f.blocks[s].label or {}).get("default")}
            after = {s for s, lab in f.edges(sb) if lab == "default" and s not in targets}
            # what every case reaches is behind the switch, not part of a case
            common = None
            for x in targets:
                r0 = flow.reach_from(f, x, avoid={sb})
                common = r0 if common is None else (common & r0)
            after = after | (common or set())
            key = "RF-CORR:%s:payload-copied-once" % f.name
            bad = None
            for y in targets:
                for pbid in f.blocks[y].preds:
                    if pbid == sb or pbid not in reach:
                        continue
                    # blocks of the falling case: reachable from the other labels, reaching pbid
                    falling = set()
                    for x in targets - {y}:
                        r1 = flow.reach_from(f, x, avoid=targets - {x} | after)
                        if pbid in r1:
                            falling |= r1
                    body_y = flow.reach_from(f, y, avoid=targets - {y} | after)
                    if falling and out_stores(falling) and out_stores(body_y):
                        bad = (pbid, y, out_stores(body_y)[0])
            if bad:
                run.violation("RF-CORR", key, "in the switch on bs->endian a case that writes the payload through the output pointer "
                              "falls into the case at line %d, which writes it again (`%s`): twice the payload is written into a "
                              "buffer that was checked for one" % (f.exprs[bad[2]]["line"], ex.pretty(f, bad[2])[:50]),
                              ex.loc(f, bad[2]), witness={"function": f.name})
            else:
                run.holds("RF-CORR", key, "each case of the switch on bs->endian that writes the payload leaves the switch", 
                          "%s:%d" % (f.file, t.get("line", f.line)))
    run.floor("payload format switches in the slicer functions", n_sw, 5)


def _output_capacity(ctx, run, f, dp):
    run.touch(f)
    run.touch(dp)
    calls = [i for b, i in flow.all_events(f) if f.exprs[i]["k"] == "call" and f.exprs[i].get("callee") == "decode_pattern"]
    run.floor("decode_pattern call sites", len(calls), 1)
    for i in calls:
        out_arg = f.exprs[ex.skip(f, f.exprs[i]["c"][1])]
        cur = out_arg.get("name")
        ats = atoms.atoms_at(f, i)
        guard = [a for a in ats if a.rel == "<" and a.R is not None and a.R.const is None and not a.L.fields and not a.R.fields
                 and cur in a.L.locals and len(a.R.locals) == 1]
        key = "RF-DOM:vbi3_raw_decoder_decode:capacity-before-write"
        ok = False
        why = "no dominating `%s < end` test" % cur
        for g in guard:
            end = sorted(g.R.locals)[0]
            if _is_sum_of(f, end, f.params[1]["name"], f.params[2]["name"]):
                ok = True
            else:
                why = "`%s` is not %s + %s" % (end, f.params[1]["name"], f.params[2]["name"])
        if ok:
            run.holds("RF-DOM", key, "decode_pattern (... %s ...) is dominated by %s < end, end = %s + %s"
                      % (cur, cur, f.params[1]["name"], f.params[2]["name"]), ex.loc(f, i))
        else:
            run.violation("RF-DOM", key, "the call that writes an output record is not dominated by the capacity test (%s): with "
                          "max_lines records already written (or max_lines == 0) one more vbi_sliced is stored past the caller's array"
                          % why, ex.loc(f, i), witness={"function": f.name, "dominating": [repr(a) for a in ats]})
    # decode_pattern advances the cursor at most once per call
    pname = dp.params[1]["name"]
    incs = [(b, i) for b, i in flow.all_events(dp) if dp.exprs[i]["k"] == "un" and dp.exprs[i]["op"] == "++"
            and dp.exprs[ex.skip(dp, dp.exprs[i]["c"][0])].get("name") == pname]
    key = "RF-IVL:decode_pattern:one-record-per-call"
    multi = len(incs) != 1
    if not multi:
        b, i = incs[0]
        # can the increment be reached again from itself?
        succs = [s for s, _ in dp.edges(b)]
        again = any(b in flow.reach_from(dp, s) for s in succs)
        multi = again
    if multi:
        run.violation("RF-IVL", key, "decode_pattern can advance the output cursor more than once per call (%d increment site(s), or one "
                      "inside a cycle): the caller's capacity test covers a single record" % len(incs), "%s:%d" % (dp.file, dp.line))
    else:
        run.holds("RF-IVL", key, "`++%s` occurs once and cannot be reached again within one call" % pname, ex.loc(dp, incs[0][1]))
    # and writes only through that cursor
    wr = [i for b, i in flow.all_events(dp) for lhs, var, op, rhs in flow.stores(dp, i)
          if lhs is not None and ex.root(dp, lhs) is not None and dp.exprs[ex.root(dp, lhs)].get("name") == pname
          and dp.exprs[ex.skip(dp, lhs)]["k"] != "ref"]
    run.floor("stores through the output cursor in decode_pattern", len(wr), 2)


def _is_sum_of(f, var, a, b):
    for bid, i in flow.all_events(f):
        for lhs, v, op, rhs in flow.stores(f, i):
            nm = v["name"] if v is not None else (f.exprs[ex.skip(f, lhs)].get("name") if lhs is not None else None)
            if nm == var and rhs is not None:
                r = f.exprs[ex.skip(f, rhs)]
                if r["k"] == "bin" and r["op"] == "+":
                    ns = {f.exprs[ex.skip(f, c)].get("name") for c in r["c"]}
                    if ns == {a, b}:
                        return True
    return False


def _slice_sizes(ctx, run, f):
    run.touch(f)
    n = 0
    for b, i in flow.all_events(f):
        e = f.exprs[i]
        if e["k"] == "call" and e.get("callee") in ("vbi3_bit_slicer_slice", "vbi3_bit_slicer_slice_with_points"):
            n += 1
            buf = f.exprs[ex.skip(f, e["c"][1])]
            while buf["k"] == "cast":
                buf = f.exprs[ex.skip(f, buf["c"][0])]
            size = ex.const(f, e["c"][2])
            arr = buf.get("arr")
            esz = buf.get("esz", 1)
            key = "RF-TAB:slice:%s:buffer_size" % e["callee"]
            if arr and size is not None and size <= arr[0] * esz:
                run.holds("RF-TAB", key, "buffer_size %d passed with an array of %d bytes" % (size, arr[0] * esz), ex.loc(f, i))
            else:
                run.violation("RF-TAB", key, "the bit slicer is told its buffer has %s bytes but receives `%s` (%s bytes)"
                              % (size, ex.pretty(f, e["c"][1]), arr[0] * esz if arr else "?"), ex.loc(f, i))
    run.floor("bit slicer calls in slice()", n, 2)


def _payload_guard(ctx, run, f):
    """The call through bs->func is reached only through an edge on which `bs->payload <= <capacity>` holds, where the
    capacity is the caller's buffer_size in the unit bs->payload is kept in (bits for endian 3 / 2, octets for 1 / 0).
    Decided as an edge cut (the test may be one expression, one test per unit class, or a capacity computed into a local
    first); the unit of every such edge is checked against the endian class it is taken under."""
    run.touch(f)
    calls = [i for b, i in flow.all_events(f) if f.exprs[i]["k"] == "call" and "fn" in f.exprs[i]]
    run.floor("%s: calls through bs->func" % f.name, len(calls), 1)
    size_p = f.params[2]["name"]
    F_PAY, F_END = "_vbi3_bit_slicer.payload", "_vbi3_bit_slicer.endian"
    units = _payload_units(ctx)

    def defs_of(name):
        out = []
        for b, i in flow.all_events(f):
            for lhs, var, op, rhs in flow.stores(f, i):
                nm = var["name"] if var is not None else (f.exprs[ex.skip(f, lhs)].get("name") if lhs is not None and
                                                          f.exprs[ex.skip(f, lhs)]["k"] == "ref" else None)
                if nm == name and rhs is not None:
                    out.append((b, rhs))
        return out

    def capacity_forms(a):
        """[(expression node, block whose dominating atoms apply)] for the right-hand side of a guard atom."""
        if a.R is None or a.R.node is None:
            return []
        if size_p in a.R.locals:
            return [(a.R.node, a.src)]
        forms = []
        for nm in a.R.locals:
            ds = defs_of(nm)
            if ds and all(size_p in atoms.Operand(f, rhs).locals for b, rhs in ds):
                forms += [(rhs, b) for b, rhs in ds]
        return forms

    def scaled8(node):
        for n in ex.walk(f, node):
            e = f.exprs[n]
            if e["k"] == "bin" and ((e["op"] == "*" and 8 in (ex.const(f, e["c"][0]), ex.const(f, e["c"][1]))) or
                                    (e["op"] == "<<" and ex.const(f, e["c"][1]) == 3)):
                return True
        return False

    def endian_class(bid):
        excl = set()
        for a in atoms.dominating_atoms(f, bid):
            if not a.L.has(F_END) or a.R is None or a.R.const is None:
                continue
            c = a.R.const
            for v in (0, 1, 2, 3):
                if (a.rel == "<" and v >= c) or (a.rel == "<=" and v > c) or (a.rel == "==" and v != c) or (a.rel == "!=" and v == c) \
                        or (a.rel == ">" and v <= c) or (a.rel == ">=" and v < c):
                    excl.add(v)
        return {0, 1, 2, 3} - excl
    guard_edges = []
    for bid in f.reachable_blocks():
        t = f.blocks[bid].term
        if not t or "cond" not in t:
            continue
        for s2, lab in f.edges(bid):
            if lab not in ("T", "F"):
                continue
            for a in atoms.edge_atoms(f, bid, lab):
                if a.rel == "<=" and a.L.has(F_PAY) and capacity_forms(a):
                    guard_edges.append((bid, s2, lab, a))
    for i in calls:
        cb = flow.elem_pos(f)[i][0]
        seen, st, reach = set(), [f.entry], False
        cut = {(b, s2) for b, s2, lab, a in guard_edges}
        while st:
            b = st.pop()
            if b in seen:
                continue
            seen.add(b)
            if b == cb:
                reach = True
                break
            for s2, lab in f.edges(b):
                if (b, s2) not in cut:
                    st.append(s2)
        key = "RF-DOM:%s:payload-fits-buffer" % f.name
        if reach or not guard_edges:
            run.violation("RF-DOM", key, "the slicer function is called without the payload-vs-buffer_size test: the payload is written "
                          "into a buffer that may be too small", ex.loc(f, i))
            continue
        bad_unit, rounded = None, None
        for b, s2, lab, a in guard_edges:
            rounded = rounded or (_rounds_down(f, a.L.node, "payload") if a.L.node is not None else None)
            for node, where in capacity_forms(a):
                reads_endian = F_END in atoms.Operand(f, node).fields or a.L.has(F_END)
                if reads_endian or len(units) <= 1:
                    continue
                cls = endian_class(where if where is not None else b) & endian_class(b)
                if scaled8(node) and not cls <= {2, 3}:
                    bad_unit = "`%s` counts bits but is used for endian %s" % (ex.pretty(f, node)[:40], sorted(cls))
                if not scaled8(node) and not cls <= {0, 1}:
                    bad_unit = "`%s` counts octets but is used for endian %s" % (ex.pretty(f, node)[:40], sorted(cls))
        if rounded:
            run.violation("RF-UNIT", "RF-UNIT:%s:payload-guard-rounding" % f.name, "the buffer test compares `%s` with the buffer size: "
                          "the division rounds the payload down, so a payload that is not a multiple of the divisor passes the test "
                          "with a buffer one octet too small" % rounded, ex.loc(f, i))
        elif bad_unit:
            run.violation("RF-UNIT", "RF-UNIT:%s:payload-guard-unit" % f.name, "bs->payload is stored in %d different units by "
                          "vbi3_bit_slicer_set_params (%s) but the buffer test is not in the unit of the mode it is taken for (%s): "
                          "for byte aligned payloads a buffer eight times too small passes the test and the slicer writes past it"
                          % (len(units), " / ".join(sorted(units)), bad_unit), ex.loc(f, i), witness={"units": sorted(units)})
        else:
            if len(units) > 1:
                run.holds("RF-UNIT", "RF-UNIT:%s:payload-guard-unit" % f.name, "every buffer test is in the unit (%s) of the endian "
                          "class it is taken under" % " / ".join(sorted(units)), ex.loc(f, i))
            run.holds("RF-DOM", key, "bs->func is reachable only through an edge `bs->payload <= buffer_size` (in the unit of "
                      "bs->payload); %d such edge(s)" % len(guard_edges), ex.loc(f, i))


def _rounds_down(f, node, member):
    """A `/ d` or `>> k` applied to a size that mentions `member` without `+ (d - 1)` first (rendering), else None."""
    for n in ex.walk(f, node):
        e = f.exprs[n]
        if e["k"] != "bin" or e["op"] not in (">>", "/"):
            continue
        d = ex.const(f, e["c"][1])
        if d is None:
            continue
        div = (1 << d) if e["op"] == ">>" else d
        if div <= 1:
            continue
        num = ex.skip(f, e["c"][0])
        if not any(f.exprs[m]["k"] == "mem" and f.exprs[m]["member"] == member for m in ex.walk(f, num)):
            continue
        ne = f.exprs[num]
        if ne["k"] == "bin" and ne["op"] == "+":
            cs = [ex.const(f, c) for c in ne["c"]]
            if any(c is not None and c >= div - 1 for c in cs):
                continue
        return ex.pretty(f, n)
    return None


def _init(ctx, run):
    P = ctx.prog
    f = P.need("vbi3_bit_slicer_set_params", BS)
    run.touch(f)
    REC = "_vbi3_bit_slicer"
    # functions stored in bs->func
    slot = ctx.sums.slots.get(("fld", REC, "func"), set())
    if len(slot) < 5:
        raise AnalysisBroken("bs->func slot has only %d functions" % len(slot))
    reads = {}
    for nm in sorted(slot):
        g = P.func(nm, BS)
        if g is None:
            continue
        for h in ctx.sums.reachable([g]).values():
            # only code that can execute: the slicer template is instantiated per pixel format and
            # the arms of `fmt == X ? ... : ...` for other formats are folded away
            live = h.reachable_blocks()
            pos = flow.elem_pos(h)
            for n, e in enumerate(h.exprs):
                if e["k"] == "mem" and e.get("in") == REC and e["member"] not in ("func", "log"):
                    if n in pos and pos[n][0] in live:
                        reads.setdefault(e["member"], set()).add(nm)
    run.floor("bit slicer fields read by the slicer functions", len(reads), 12)
    # fields written on every path to `return TRUE`
    true_rets = [(b, i) for b, i in flow.all_events(f) if f.exprs[i]["k"] == "ret" and f.exprs[i].get("c")
                 and ex.const(f, f.exprs[i]["c"][0]) not in (0, None)]
    false_rets = [(b, i) for b, i in flow.all_events(f) if f.exprs[i]["k"] == "ret" and f.exprs[i].get("c")
                  and ex.const(f, f.exprs[i]["c"][0]) == 0]
    if not true_rets:
        raise AnalysisBroken("vbi3_bit_slicer_set_params has no TRUE return")
    # where each slicer function is installed
    arm = {}
    for b in f.blocks:
        for i in flow.events(f, b):
            for lhs, var, op, rhs in flow.stores(f, i):
                if lhs is None or rhs is None:
                    continue
                l = f.exprs[ex.skip(f, lhs)]
                if l["k"] == "mem" and l.get("in") == REC and l["member"] == "func":
                    r = f.exprs[ex.skip(f, rhs)]
                    while r["k"] in ("cast", "un"):
                        r = f.exprs[ex.skip(f, r["c"][0])]
                    if r.get("name"):
                        arm.setdefault(r["name"], set()).add(b)
    dead_defaults = _exhaustive_enum_switches(ctx, f)

    def succs(n):
        return [s for s, lab in f.edges(n) if not (lab == "default" and n in dead_defaults)]

    def reach_avoiding(src, dst, avoid):
        seen = set()
        st = [src]
        while st:
            n = st.pop()
            if n in seen or n in avoid:
                continue
            seen.add(n)
            if n == dst:
                return True
            st.extend(succs(n))
        return False

    for fld in sorted(reads):
        key = "RF-INIT:_vbi3_bit_slicer.%s" % fld
        hit = {b for b in f.blocks for i in flow.events(f, b) if atoms.store_to_field("%s.%s" % (REC, fld))(f, i)}
        # for every slicer function g reading the field: every path entry -> (bs->func = g) -> TRUE return writes it
        ok = True
        for g in reads[fld]:
            for ab in arm.get(g, ()):
                if ab in hit:
                    continue
                for rb, ri in true_rets:
                    if not reach_avoiding(ab, rb, set()):
                        continue
                    before = not reach_avoiding(f.entry, ab, hit)
                    after = not reach_avoiding(ab, rb, hit)
                    if not (before or after):
                        ok = False
        if ok:
            run.holds("RF-INIT", key, "read by %d slicer function(s); written on every path to the TRUE return of set_params"
                      % len(reads[fld]), "%s:%d" % (f.file, f.line), nontrivial=True)
        else:
            run.violation("RF-INIT", key, "bs->%s is read by the slicer functions (%s ...) but some path of vbi3_bit_slicer_set_params "
                          "returns TRUE without writing it: the slicer runs on a stale or uninitialised value"
                          % (fld, sorted(reads[fld])[0]), "%s:%d" % (f.file, f.line), witness={"field": fld})
    # failure paths disarm the slicer
    n_bad = 0
    for rb, ri in false_rets:
        # the return is preceded in its block (or a unique predecessor chain) by bs->func = null_function,
        # or happens before any bs->func store
        ok = _disarmed(ctx, f, rb, ri)
        key = "RF-INIT:set_params:failure-disarms:line-role-%d" % len([1 for x in false_rets if x[1] <= ri])
        if ok:
            run.holds("RF-INIT", key, "FALSE return with bs->func = null_function (or before bs->func was armed)", ex.loc(f, ri),
                      nontrivial=False)
        else:
            n_bad += 1
            run.violation("RF-INIT", key, "a failing exit of vbi3_bit_slicer_set_params leaves an armed bs->func with partly updated "
                          "parameters: the next vbi3_bit_slicer_slice runs the slicer on an inconsistent state", ex.loc(f, ri))
    run.floor("FALSE returns of vbi3_bit_slicer_set_params", len(false_rets), 2)


def _exhaustive_enum_switches(ctx, f):
    """Blocks ending in a switch over an enum expression that has a case for
    every enumerator: the implicit default edge is not a path of a correct caller."""
    res = set()
    for bid, b in f.blocks.items():
        t = b.term
        if not t or t["kind"] != "SwitchStmt":
            continue
        ty = f.exprs[ex.skip(f, t["cond"])].get("t", "")
        # look through the integral promotion of the controlling expression
        n = ex.skip(f, t["cond"])
        e = f.exprs[n]
        while e["k"] == "cast":
            n = ex.skip(f, e["c"][0])
            e = f.exprs[n]
            ty = e.get("t", ty)
        name = ty.replace("enum ", "").strip()
        en = ctx.prog.enums.get(name)
        if not en:
            continue
        vals = set(en["enumerators"].values())
        covered = set()
        for lo, hi in f.switch_cases(bid):
            covered |= set(range(lo, hi + 1))
        if vals <= covered:
            res.add(bid)
    return res


def _disarmed(ctx, f, rb, ri):
    """On every path to this return the last store to bs->func is
    null_function, or there is no store to bs->func at all."""
    REC = "_vbi3_bit_slicer"
    arm, disarm = set(), set()
    for b in f.blocks:
        last = None
        for i in flow.events(f, b):
            for lhs, var, op, rhs in flow.stores(f, i):
                if lhs is None:
                    continue
                l = f.exprs[ex.skip(f, lhs)]
                if l["k"] == "mem" and l.get("in") == REC and l["member"] == "func":
                    r = f.exprs[ex.skip(f, rhs)]
                    while r["k"] in ("cast", "un"):
                        r = f.exprs[ex.skip(f, r["c"][0])]
                    last = "disarm" if r.get("name") == "null_function" else "arm"
        if last == "arm":
            arm.add(b)
        elif last == "disarm":
            disarm.add(b)
    # backward from the return: stop at disarm blocks; reaching an arm block is a violation
    seen = set()
    st = [rb]
    while st:
        n = st.pop()
        if n in seen:
            continue
        seen.add(n)
        if n in disarm:
            continue
        if n in arm:
            return False
        st.extend(f.blocks[n].preds)
    return True


def _deps(f):
    d = {}
    for bid, i in flow.all_events(f):
        for lhs, var, op, rhs in flow.stores(f, i):
            nm = var["name"] if var is not None else None
            if lhs is not None:
                l = f.exprs[ex.skip(f, lhs)]
                if l["k"] == "ref":
                    nm = l["name"]
                elif l["k"] == "mem":
                    nm = "field:%s" % l["member"]
            if nm is None or rhs is None:
                continue
            o = atoms.Operand(f, rhs)
            d.setdefault(nm, set()).update(o.locals)
            if op != "=":
                d[nm].add(nm)
    return d


def _closure(d, start):
    seen = set()
    st = list(start)
    while st:
        n = st.pop()
        if n in seen:
            continue
        seen.add(n)
        st.extend(d.get(n, ()))
    return seen


def _provenance(ctx, run, f):
    run.touch(f)
    d = _deps(f)
    pn = [p["name"] for p in f.params]
    # roles by position in the documented signature
    sampling_rate, sample_offset, samples_per_line = pn[2], pn[3], pn[4]
    frc_bits, payload_bits, payload_rate = pn[11], pn[12], pn[13]
    dep = _closure(d, ["field:cri_samples"])
    need = {samples_per_line: "samples_per_line", sample_offset: "sample_offset", payload_bits: "payload_bits", frc_bits: "frc_bits",
            sampling_rate: "sampling_rate", payload_rate: "payload_rate"}
    missing = [v for k, v in need.items() if k not in dep]
    key = "RF-DEP:vbi3_bit_slicer_set_params:cri_samples"
    if missing:
        run.violation("RF-DEP", key, "the CRI search limit bs->cri_samples does not depend on %s: the search window is not shortened by "
                      "everything that must still fit after the CRI (CRI found at the end of the window => FRC/payload sampled past "
                      "samples_per_line)" % ", ".join(missing), "%s:%d" % (f.file, f.line), witness={"missing": missing})
    else:
        run.holds("RF-DEP", key, "bs->cri_samples depends on samples_per_line, sample_offset, payload_bits, frc_bits, sampling_rate and "
                  "payload_rate", "%s:%d" % (f.file, f.line))
    # the search limit itself: counted from sample_offset, it leaves room for the data behind it -
    #   bs->cri_samples + sample_offset + data_samples <= samples_per_line
    # decided as a linear inequality over the stored expression (MIN arms are upper bounds; locals are followed to
    # their reaching definitions; mathematical integers - the operands were range-checked by the 'fits' test above)
    from .. import linear
    st = [(i, rhs) for b, i in flow.all_events(f) for lhs, var, op, rhs in flow.stores(f, i)
          if lhs is not None and op == "=" and f.exprs[ex.skip(f, lhs)]["k"] == "mem"
          and f.exprs[ex.skip(f, lhs)]["member"] == "cri_samples" and f.exprs[ex.skip(f, lhs)].get("in") == "_vbi3_bit_slicer"]
    run.floor("stores of bs->cri_samples in vbi3_bit_slicer_set_params", len(st), 1)
    for i, rhs in st:
        forms = linear.upper_bounds(f, rhs, i)
        good = None
        for co, k in forms:
            rest = {n: v for n, v in co.items() if n not in (samples_per_line, sample_offset)}
            if co.get(samples_per_line) == 1 and co.get(sample_offset) == -1 and k <= 0 and len(rest) == 1:
                dn, dv = list(rest.items())[0]
                roots = [dn]
                if dn.startswith("<") and dn in f._cache.get("lin_opaque", {}):
                    # an expression standing for the data samples (the product written out in place)
                    roots = sorted(atoms.Operand(f, f._cache["lin_opaque"][dn]).locals)
                if dv <= -1 and {payload_bits, frc_bits} <= _closure(d, roots):
                    good = (co, k)
        key = "RF-LIN:vbi3_bit_slicer_set_params:search-window-budget"
        if good:
            run.holds("RF-LIN", key, "bs->cri_samples <= %s: the CRI search, counted from sample_offset, ends early enough for FRC and "
                      "payload to fit the line" % linear.fmt(good), ex.loc(f, i))
        else:
            run.violation("RF-LIN", key, "no upper bound of `%s` has the form samples_per_line - sample_offset - <data samples>: the "
                          "bounds derived are %s, so a CRI found at the end of the search window leaves FRC/payload to be sampled past "
                          "samples_per_line" % (ex.pretty(f, i)[:90], "; ".join(linear.fmt(x) for x in forms) or "none"),
                          ex.loc(f, i), witness={"function": f.name, "bounds": [linear.fmt(x) for x in forms]})
    # the 'does not fit' guard dominates the TRUE return and uses the same data length
    true_rets = [i for b, i in flow.all_events(f) if f.exprs[i]["k"] == "ret" and f.exprs[i].get("c")
                 and ex.const(f, f.exprs[i]["c"][0]) not in (0, None)]
    ok = False
    for i in true_rets:
        for a in atoms.atoms_at(f, i):
            if a.rel == "<=" and a.R is not None and samples_per_line in a.R.locals and sample_offset in a.R.locals:
                g = _closure(d, a.L.locals)
                if {payload_bits, frc_bits, sampling_rate, payload_rate} <= g:
                    ok = True
    key = "RF-DOM:vbi3_bit_slicer_set_params:fits-line"
    if ok:
        run.holds("RF-DOM", key, "`cri_samples + data_samples <= samples_per_line - sample_offset` (data length from payload_bits + "
                  "frc_bits) dominates the TRUE return", "%s:%d" % (f.file, f.line))
    else:
        run.violation("RF-DOM", key, "the TRUE return is not dominated by a 'CRI + FRC + payload fit the line' test over payload_bits, "
                      "frc_bits, sampling_rate and payload_rate", "%s:%d" % (f.file, f.line))


def _legacy(ctx, run, f):
    run.touch(f)
    d = _deps(f)
    pn = [p["name"] for p in f.params]
    # vbi_bit_slicer_init (slicer, raw_samples, sampling_rate, cri_rate, bit_rate, cri_frc, cri_mask, cri_bits, frc_bits, payload, modulation, fmt)
    raw_samples, sampling_rate, bit_rate, frc_bits, payload = pn[1], pn[2], pn[4], pn[8], pn[9]
    dep = _closure(d, ["field:cri_bytes"])
    missing = [n for n in (raw_samples, sampling_rate, bit_rate, frc_bits, payload) if n not in dep]
    key = "RF-DEP:vbi_bit_slicer_init:cri_bytes"
    if missing:
        run.violation("RF-DEP", key, "the legacy slicer's search limit cri_bytes does not depend on %s" % ", ".join(missing),
                      "%s:%d" % (f.file, f.line))
    else:
        run.holds("RF-DEP", key, "cri_bytes depends on raw_samples, sampling_rate, bit_rate, frc_bits and payload", "%s:%d" % (f.file, f.line))


def _admission(ctx, run):
    P = ctx.prog
    n = 0
    for name in ("vbi3_raw_decoder_add_services", "vbi3_raw_decoder_set_sampling_par"):
        f = P.need(name, RD)
        run.touch(f)
        checks = [i for b, i in flow.all_events(f) if f.exprs[i]["k"] == "call"
                  and f.exprs[i].get("callee") in ("_vbi_sampling_par_valid_log", "_vbi_sampling_par_permit_service", "_vbi_sampling_par_check_services_log")]
        key = "RF-DOM:%s:validated" % name
        if checks:
            n += 1
            run.holds("RF-DOM", key, "sampling parameters / services pass %s before they are installed"
                      % f.exprs[checks[0]].get("callee"), ex.loc(f, checks[0]), nontrivial=False)
        else:
            run.violation("RF-DOM", key, "%s no longer validates the sampling parameters" % name, "%s:%d" % (f.file, f.line))
    run.floor("validated admission functions", n, 2)
    # every installation of caller-supplied sampling parameters (`rd->sampling = *sp`) is dominated by a
    # successful _vbi_sampling_par_valid_log (sp): the decode loop addresses image rows from count[], the
    # interlace flag and bytes_per_line without further checks (the per-service admission looks at rates
    # and line numbers only, not at the layout)
    m = 0
    for f in P.funcs:
        if f.file != RD:
            continue
        for bid, i in flow.all_events(f):
            for lhs, var, op, rhs in flow.stores(f, i):
                if lhs is None or op != "=" or rhs is None:
                    continue
                l = f.exprs[ex.skip(f, lhs)]
                if not (l["k"] == "mem" and l["member"] == "sampling" and l.get("in") == "_vbi3_raw_decoder"):
                    continue
                m += 1
                run.touch(f)
                key = "RF-DOM:%s:sampling-installed-validated" % f.name
                ok = any(a.call_cmp("_vbi_sampling_par_valid_log", "!=", 0) for a in atoms.atoms_at(f, i))
                if ok:
                    run.holds("RF-DOM", key, "`%s` is dominated by a successful _vbi_sampling_par_valid_log()" % ex.pretty(f, i)[:40],
                              ex.loc(f, i))
                else:
                    run.violation("RF-DOM", key, "%s() installs caller-supplied sampling parameters (`%s`) without a dominating "
                                  "successful _vbi_sampling_par_valid_log(): an inadmissible line layout (interlaced with unequal "
                                  "field counts, bytes_per_line not a multiple of the pixel size ...) reaches the decode loop, which "
                                  "then reads rows behind the raw image" % (f.name, ex.pretty(f, i)[:40]), ex.loc(f, i))
    run.floor("installations of sampling parameters in the raw decoder", m, 2)


def _wide_products(ctx, run):
    """sampling_rate * bits overflows 32 bit for every Teletext-length payload: the products that
    feed cri_samples / data_samples / step / cri_bytes must be carried out in 64 bit."""
    P = ctx.prog
    n = 0
    for fname, unit, rate_pos in (("vbi3_bit_slicer_set_params", BS, 2), ("vbi_bit_slicer_init", DEC, 2)):
        f = P.need(fname, unit)
        run.touch(f)
        rate = f.params[rate_pos]["name"]
        d = _deps(f)
        limit = "field:cri_samples" if unit == BS else "field:cri_bytes"
        feeds = _closure(d, [limit]) | {limit}
        # the target of the statement each product sits in
        target = {}
        for bid, ev in flow.all_events(f):
            for lhs, var, op, rhs in flow.stores(f, ev):
                nm = var["name"] if var is not None else None
                if lhs is not None:
                    l = f.exprs[ex.skip(f, lhs)]
                    nm = l["name"] if l["k"] == "ref" else ("field:%s" % l["member"] if l["k"] == "mem" else nm)
                if rhs is not None and nm is not None:
                    for n2 in ex.walk(f, rhs):
                        target.setdefault(n2, set()).add(nm)    # (sub-expressions may be shared after normalisation)
        for i, e in enumerate(f.exprs):
            if e["k"] != "bin" or e["op"] != "*" or "it" not in e:
                continue
            if not (target.get(i, set()) & feeds):
                continue            # does not feed the CRI search limit
            ops = [atoms.Operand(f, c) for c in e["c"]]
            if not any(rate in o.locals for o in ops):
                continue
            other = [o for o in ops if rate not in o.locals]
            if other and other[0].const is not None and other[0].const <= 16 and not other[0].locals:
                continue            # sampling_rate * OVERSAMPLING and the like: a small constant factor
            n += 1
            key = "RF-WIDTH:%s:%s" % (fname, "+".join(sorted(other[0].locals)) if other else "?")
            if e["it"][0] >= 64:
                run.holds("RF-WIDTH", key, "`%s` is computed in a %d bit type" % (ex.pretty(f, i)[:60], e["it"][0]), ex.loc(f, i))
            else:
                run.violation("RF-WIDTH", key, "`%s` is a %d bit product of the sampling rate and a bit count: it wraps for Teletext "
                              "length payloads (13.5 MHz x 360 bit > 2^31), the CRI search limit derived from it becomes almost the "
                              "whole line and the payload is sampled past its end" % (ex.pretty(f, i)[:70], e["it"][0]), ex.loc(f, i),
                              witness={"function": fname, "bits": e["it"][0]})
    run.floor("products of the sampling rate feeding a search limit", n, 2)


REJECT_REGIONS = [
    ("interlaced, first field longer", {"sp->interlaced": (1, 1 << 30), "sp->count[0]": (2, 1 << 20), "sp->count[1]": (0, 1)}),
    ("interlaced, second field longer", {"sp->interlaced": (1, 1 << 30), "sp->count[0]": (0, 1), "sp->count[1]": (2, 1 << 20)}),
    ("interlaced, counts differ by one", {"sp->interlaced": (1, 1 << 30), "sp->count[0]": (7, 7), "sp->count[1]": (6, 6)}),
    ("no lines at all", {"sp->count[0]": (0, 0), "sp->count[1]": (0, 0)}),
    ("zero bytes per line", {"sp->bytes_per_line": (0, 0)}),
]
ACCEPT_REGION = ("interlaced, equal non-zero counts", {"sp->interlaced": (1, 1), "sp->count[0]": (5, 5), "sp->count[1]": (5, 5)})


def _validity_regions(ctx, run):
    from .. import ivl
    f = ctx.prog.need("_vbi_sampling_par_valid_log", "src/sampling_par.c")
    run.touch(f)
    hits, miss = ivl.returns_reachable(ctx, f, ACCEPT_REGION[1])
    if miss or not hits:
        raise AnalysisBroken("_vbi_sampling_par_valid_log: positive control region '%s' does not reach TRUE (unmatched paths %s)"
                             % (ACCEPT_REGION[0], miss))
    for name, reg in REJECT_REGIONS:
        hits, miss = ivl.returns_reachable(ctx, f, reg)
        if miss:
            raise AnalysisBroken("_vbi_sampling_par_valid_log: region '%s' names fields the function no longer reads: %s" % (name, miss))
        key = "RF-REGION:_vbi_sampling_par_valid_log:%s" % name
        if hits:
            run.violation("RF-REGION", key, "sampling parameters in the region '%s' (%s) can be accepted (return at %s): the raw "
                          "decoder then walks field lines the image does not have" % (name, reg, ex.loc(f, hits[0])), ex.loc(f, hits[0]),
                          witness={"region": {k: list(v) for k, v in reg.items()}})
        else:
            run.holds("RF-REGION", key, "no TRUE return is reachable for any input in the region %s" % reg, "%s:%d" % (f.file, f.line))


def _payload_units(ctx):
    """How vbi3_bit_slicer_set_params scales payload_bits when it stores bs->payload: {'bits', 'bits >> 3', ...}"""
    f = ctx.prog.need("vbi3_bit_slicer_set_params", BS)
    units = set()
    for bid, i in flow.all_events(f):
        e = f.exprs[i]
        if e["k"] == "asg" and e["op"] == "=":
            l = f.exprs[ex.skip(f, e["c"][0])]
            if l["k"] == "mem" and l["member"] == "payload":
                r = f.exprs[ex.skip(f, e["c"][1])]
                while r["k"] == "cast":
                    r = f.exprs[ex.skip(f, r["c"][0])]
                if r["k"] == "bin" and r["op"] in (">>", "/"):
                    units.add("payload_bits %s %s" % (r["op"], ex.const(f, r["c"][1])))
                else:
                    units.add("payload_bits")
    return units


def _params_before_handover(ctx, run):
    """decoder.c keeps the sampling parameters in the public vbi_raw_decoder and hands them to the
    internal vbi3 decoder with vbi3_raw_decoder_set_sampling_par (rd3, (vbi_sampling_par *) rd, ...).
    After that call no path may store into the geometry fields again before the function returns:
    the internal decoder would keep walking the old line counts over an image of the new size."""
    P = ctx.prog
    GEO = {"start", "count", "bytes_per_line", "sampling_rate", "offset", "interlaced", "synchronous", "scanning", "sampling_format"}
    n = 0
    for f in P.funcs:
        if f.file != DEC:
            continue
        for bid, i in flow.all_events(f):
            e = f.exprs[i]
            if not (e["k"] == "call" and e.get("callee") == "vbi3_raw_decoder_set_sampling_par"):
                continue
            n += 1
            run.touch(f)
            bad = None
            seen, stack = set(), [(bid, flow.elem_pos(f)[i][1] + 1)]
            while stack and bad is None:
                b, k0 = stack.pop()
                if (b, k0 > 0) in seen:
                    continue
                seen.add((b, k0 > 0))
                for j in f.blocks[b].elems[k0:]:
                    if not flow.is_event(f, j):
                        continue
                    for lhs, var, op, rhs in flow.stores(f, j):
                        if lhs is None:
                            continue
                        l = f.exprs[ex.skip(f, lhs)]
                        while l["k"] == "idx":
                            l = f.exprs[ex.skip(f, l["c"][0])]
                        if l["k"] == "mem" and l.get("in") in ("vbi_raw_decoder", "_vbi_sampling_par", "vbi_sampling_par") and l["member"] in GEO:
                            bad = j
                for s2, _ in f.edges(b):
                    stack.append((s2, 0))
            key = "RF-DEP:%s:geometry-final-before-handover" % f.name
            if bad is None:
                run.holds("RF-DEP", key, "no geometry field of the public decoder is stored after it was handed to the internal "
                          "decoder", ex.loc(f, i))
            else:
                run.violation("RF-DEP", key, "`%s` changes the sampling geometry after vbi3_raw_decoder_set_sampling_par() has already "
                              "copied it: the internal decoder keeps the old line counts and, after a shrink, reads rows behind the "
                              "image" % ex.pretty(f, bad)[:70], ex.loc(f, bad), witness={"function": f.name})
    run.floor("hand-overs of the sampling parameters in decoder.c", n, 2)


def _cri_count_unscaled(ctx, run):
    """bs->cri_samples is a number of *samples*; every slicer advances its raw pointer by the pixel
    size itself.  Each read of the field in a slicer must be used as it is (loop count), never scaled."""
    P = ctx.prog
    n = 0
    for f in P.funcs:
        if f.file not in (BS, DEC) or f.name == "vbi3_bit_slicer_set_params":
            continue
        par = None
        for i, e in enumerate(f.exprs):
            if e["k"] == "mem" and e["member"] in ("cri_samples", "cri_bytes") and flow.elem_pos(f).get(i) is not None:
                if par is None:
                    par = {}
                    for j, pe in enumerate(f.exprs):
                        for c in pe.get("c", []) or []:
                            if isinstance(c, int) and c >= 0:
                                par.setdefault(c, j)
                q = par.get(i)
                while q is not None and f.exprs[q]["k"] == "cast":
                    q = par.get(q)
                qe = f.exprs[q] if q is not None else None
                if qe is not None and qe["k"] == "asg" and ex.skip(f, qe["c"][0]) == i:
                    continue            # a store to the field, not a read
                n += 1
                run.touch(f)
                key = "RF-UNIT:%s:cri-search-count" % f.name
                if qe is not None and qe["k"] == "bin" and qe["op"] in ("*", "<<", "/", ">>"):
                    run.violation("RF-UNIT", key, "`%s` scales the CRI search limit: bs->%s already counts samples and the search "
                                  "loop steps the raw pointer by the pixel size, so the search runs `bytes per pixel` times as far "
                                  "as the window set_params computed - past the end of the line" % (ex.pretty(f, q)[:60], e["member"]),
                                  ex.loc(f, q), witness={"function": f.name})
                else:
                    run.holds("RF-UNIT", key, "bs->%s is used unscaled" % e["member"], ex.loc(f, i), nontrivial=False)
    run.floor("reads of the CRI search limit in slicer functions", n, 3)


def _pattern_row_moves(ctx, run):
    """RF-IVL: decode_pattern() keeps, per scan line, a row of _VBI3_RAW_DECODER_MAX_WAYS
    predicted services in rd->pattern; `pattern` points at the row of the line being decoded.
    A block move inside the row (the rotation of a line predicted blank) stays inside it: start
    index + number of elements <= row length for source and destination - one element more reads
    (or writes) the first byte of the next line's row, and behind the last line the heap block."""
    P = ctx.prog
    f = P.need("decode_pattern", RD)
    run.touch(f)
    an = ctx.analysis(f)
    # row length: the stride with which the row pointer is derived from rd->pattern
    ways = P.enum_consts.get("_VBI3_RAW_DECODER_MAX_WAYS")
    if ways is None:
        consts = [ex.const(f, e["c"][1]) for e in f.exprs if e["k"] == "idx"
                  and f.exprs[ex.skip(f, e["c"][0])].get("name") == "pattern" and ex.const(f, e["c"][1]) is not None]
        ways = (max(consts) + 1) if consts else None
    if not ways:
        raise AnalysisBroken("decode_pattern: row length of rd->pattern not found")
    n = 0
    for bid, i in flow.all_events(f):
        e = f.exprs[i]
        if e["k"] != "call" or e.get("callee") not in ("memmove", "memcpy", "__builtin_memmove", "__builtin_memcpy") or len(e.get("c", [])) < 3:
            continue

        def row_index(arg):
            a = f.exprs[ex.skip(f, arg)]
            while a["k"] == "cast":
                a = f.exprs[ex.skip(f, a["c"][0])]
            if a["k"] == "un" and a["op"] == "&":
                x = f.exprs[ex.skip(f, a["c"][0])]
                if x["k"] == "idx" and f.exprs[ex.skip(f, x["c"][0])].get("name") == "pattern":
                    return ex.const(f, x["c"][1])
            if a["k"] == "ref" and a.get("name") == "pattern":
                return 0
            return None
        di, si = row_index(e["c"][0]), row_index(e["c"][1])
        if di is None and si is None:
            continue
        n += 1
        st = an.state_before_expr(i)
        sz = an.eval(st, e["c"][2]) if st is not None else (None, None)
        key = "RF-IVL:decode_pattern:row-move@%d" % n
        worst = max(x for x in (di, si) if x is not None)
        if sz[1] is not None and worst + sz[1] <= ways:
            run.holds("RF-IVL", key, "`%s`: at most %d elements from index %d of a row of %d" % (ex.pretty(f, i)[:50], sz[1], worst, ways),
                      ex.loc(f, i))
        else:
            run.violation("RF-IVL", key, "`%s` moves %s elements starting at index %d of a row of %d predicted services: it reaches "
                          "into the next scan line's row and, for the last line of the image, past the rd->pattern heap block"
                          % (ex.pretty(f, i)[:50], sz[1] if sz[1] is not None else "an unbounded number of", worst, ways), ex.loc(f, i),
                          witness={"size": list(sz), "row": ways})
    run.floor("block moves inside a pattern row", n, 1)


def _debug_after_geometry(ctx, run):
    """RF-DEP: vbi3_raw_decoder_debug() (re)allocates the sampling-point array rd->sp_lines with
    one entry per scan line of rd->sampling.  Where new sampling parameters are installed, it runs
    after the store `rd->sampling = *sp`: sized from the old geometry, a decode of the larger
    new image writes sampling points past the heap block."""
    P = ctx.prog
    f = P.need("vbi3_raw_decoder_set_sampling_par", RD)
    run.touch(f)
    pos = flow.elem_pos(f)
    stores = [(b, i) for b, i in flow.all_events(f) for lhs, var, op, rhs in flow.stores(f, i)
              if lhs is not None and op == "=" and f.exprs[ex.skip(f, lhs)]["k"] == "mem"
              and f.exprs[ex.skip(f, lhs)]["member"] == "sampling" and rhs is not None and ex.const(f, rhs) is None]
    calls = [(b, i) for b, i in flow.all_events(f) if f.exprs[i]["k"] == "call" and f.exprs[i].get("callee") == "vbi3_raw_decoder_debug"]
    if not stores or not calls:
        raise AnalysisBroken("vbi3_raw_decoder_set_sampling_par: geometry store / debug call not found")
    for cb, ci in calls:
        ok = any((sb == cb and pos[si][1] < pos[ci][1]) or (sb != cb and flow.dominates(f, sb, cb)) for sb, si in stores)
        key = "RF-DEP:vbi3_raw_decoder_set_sampling_par:debug-after-geometry"
        if ok:
            run.holds("RF-DEP", key, "the sampling-point array is resized after the new geometry is installed", ex.loc(f, ci))
        else:
            run.violation("RF-DEP", key, "`%s` sizes rd->sp_lines before `rd->sampling = *sp`: the array keeps the line count of the "
                          "old geometry and decoding a larger image in debug mode writes sampling points past it"
                          % ex.pretty(f, ci)[:50], ex.loc(f, ci))
