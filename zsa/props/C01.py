"""C01 — the service decoder survives every input.

Decided here (each a necessary condition of the statement):
  (a) RF-IVL    every subscript of a constant-size array in the 20 anchored units is in
                bounds for every index the function's own guards, the declared field
                invariants and the parameter joins admit;
      RF-INV    the declared field invariants themselves (every writer checked);
  (b) RF-ASSERT data-dependent assertions cannot fail;
  (c) RF-SHIFT  shift amounts inside the operand width, no shift of a possibly negative
                decode result, divisors non-zero;
  (d) RF-REC    recursion = the confirmed, guarded set;
  (f) RF-PAIR   page/network references released on every path; RF-UAF no use of a heap
                block after free(); RF-INIT list nodes initialised before they are linked.
"""
from .. import absint, atoms, ex, fieldinv, flow, heapinit, ivl, uaf
from ..prog import AnalysisBroken

CLAUSE = ("memory safety and termination shapes of the service decoder (20 anchored units): every subscript of a constant-size "
          "array is inside the array for every index admitted by the function's guards, by the parameter values of all call "
          "sites and by the declared field invariants; every declared field invariant is re-established by every writer "
          "(direct stores, memset/memcpy, struct copies; no escaping address); data-dependent assertions cannot fail; shift "
          "amounts stay inside the operand width; the recursive call cycles are exactly the confirmed, guarded ones; cache "
          "page and network references are released on every path; a freed heap block is not used again; list nodes are "
          "initialised before they are linked; (RF-TERM) the cache page walk is entered only with a non-empty network and "
          "leaves at its second wrap-around in both directions; (RF-CORR) in convert_drcs every case of the mode switch "
          "advances the output cursor by 60 and the input cursor by 20 bytes per pattern transfer unit it consumes.")
NOT_DECIDED = ("termination of data-dependent loops in general, signed overflow of accumulating counters, unbounded growth "
               "other than through reference leaks, the content of what is decoded; subscripts of pointer parameters whose "
               "extent is a caller contract (listed per site in the evidence as trusted, with the contract).")

UNITS = ["src/vbi.c", "src/packet.c", "src/teletext.c", "src/cache.c", "src/caption.c", "src/trigger.c", "src/wss.c",
         "src/lang.c", "src/tables.c", "src/search.c", "src/ure.c", "src/export.c", "src/exp-txt.c", "src/exp-html.c",
         "src/exp-gfx.c", "src/exp-vtx.c", "src/exp-templ.c", "src/conv.c", "src/packet-830.c", "src/vps.c"]

# --------------------------------------------------------------------------------------
# Declared field invariants (verified by fieldinv.Invariants.verify on every run)

INVARIANTS = [
    dict(rec="cc_channel", field="hidden", lo=0, hi=1, why="selects one of the two caption page buffers pg[2]"),
    dict(rec="cc_channel", field="row", lo=0, hi=14, why="caption cursor row; line = pg.text + row * 34"),
    dict(rec="cc_channel", field="row1", lo=0, hi=14, why="first row of the roll-up window; text[row1 * 34] is scrolled"),
    dict(rec="cc_channel", field="roll", lo=2, hi=15, init_written=True,
         why="roll-up depth; row1 + roll - 1 is the last window row; vbi_caption_init() runs vbi_caption_channel_switched(), "
             "which assigns roll (3 or ROWS) for all nine channels, before any caption byte is decoded"),
    dict(rec="cc_channel", field="col", lo=0, hi=33, why="caption cursor column into line[34]"),
    dict(rec="cc_channel", field="col1", lo=0, hi=33, why="start column of the current word in line[34]"),
    dict(rec="caption", field="itv_count", lo=0, hi=255, why="fill level of itv_buf[256]"),
    dict(rec="caption", field="curr_chan", lo=0, hi=8, why="index into channel[9]"),
    dict(rec="vbi_page", field="rows", lo=0, hi=25, why="text[] holds 25 rows of 41 columns (1056 cells)"),
    dict(rec="vbi_page", field="columns", lo=0, hi=41, why="text[] holds 25 rows of 41 columns (1056 cells)"),
    dict(rec="text_instance", field="format", lo=0, hi=10, why="index into iconv_formats[11] (the option setter checks against "
         "elements (formats))"),
    dict(rec="vbi_page", field="nav_index", lo=0, hi=5, why="values index vbi_page.nav_link[6]"),
    dict(rec="cache_page", field="pgno", lo=0x100, hi=0x8FF, init_written=True,
         why="page number of a page under assembly or in the cache: set from the magazine and the two Hamming-decoded page "
             "digits when the header arrives, before any other use (pages without header have function DISCARD)"),
    dict(rec="ttx_ait_title", field="text", lo=0, hi=127, why="parity-checked 7 bit characters passed to vbi_teletext_unicode()"),
    dict(rec="vbi_font_descr", field="G0", lo=0, hi=11, table="vbi_font_descriptors",
         why="G0 character set of a font: never one of the mosaic sets whose code range vbi_teletext_unicode() asserts"),
    dict(rec="vbi_font_descr", field="G2", lo=0, hi=11, table="vbi_font_descriptors", why="G2 character set of a font"),
    dict(rec="xds_sub_packet", field="count", lo=0, hi=34, why="fill level of the XDS sub-packet buffer[32] plus the two header bytes"),
    dict(rec="vbi_font_descr", field="subset", lo=0, hi=13, table="vbi_font_descriptors",
         why="national subset, asserted < 14 by vbi_teletext_unicode()"),
    dict(rec="ttx_extension", field="charset_code", lo=0, hi=127, why="7 bit character set code; VALID_CHARACTER_SET() tests "
         "only the upper bound before indexing vbi_font_descriptors[88]"),
    dict(rec="cache_page", field="national", lo=0, hi=7, why="C12-C14 national option bits added to the character set code"),
    dict(rec="ttx_magazine", field="pop_lut", lo=-1, hi=7, why="index into pop_link[][8]; -1/0 = no link"),
    dict(rec="ttx_magazine", field="drcs_lut", lo=-1, hi=7, why="index into drcs_link[][8]; -1/0 = no link"),
    dict(rec="ttx_pop_link.default_obj", field="type", lo=0, hi=3, why="object type 1..3 selects the pointer table entry",
         filler=0xFF),
]


# One named writer each, with the argument the interval analysis cannot make (relational or
# cross-call); listed in the evidence under `assumptions`.
INV_EXCEPTIONS = {
    "RF-INV:caption.itv_count:itv_separator:++":
        "after `if (c == '<') itv_separator (vbi, cc, 0)` the count is 0 (the nested call takes the terminator branch: "
        "its event-mask test repeats the one this call already passed), otherwise the guard `itv_count > sizeof (itv_buf) - 2` "
        "has reset it: the increment stores at most 255",
}
# (caller, callee, parameter) -> fields the argument is computed from, assumed range, reason
ARG_ASSUME = {
    ("caption_command", "set_cursor", "row"): (
        frozenset(("row1", "roll")), (0, 14),
        "row1 + roll - 1 with row1 = max (0, row - roll + 1), row <= 14 from row_mapping[], roll <= 15: a relation between "
        "two fields (row1 + roll <= 15), outside an interval domain"),
}


# --------------------------------------------------------------------------------------
# Subscripts the interval analysis cannot decide, one entry per named site.  kind:
#   contract    the index comes from an argument of a public function whose documented
#               contract bounds it; the site is re-checked under the join of all *internal*
#               call sites (must hold there)
#   relational  the bound is a relation between two variables / a cross-call counter
#   value-set   the value is a member of a set that is not an interval
#   delegated   decided by another check of this framework
# `fields`: the field/variable names the index must be computed from for the entry to apply
# (an index computed from anything else at that site is reported).
TRUSTED = {
    "RF-IVL:xds_separator:buffer[count-2]": dict(kind="delegated", why="C09 invariant I: a current sub-packet has count >= 2 "
                                                 "(RF-CORR typestate in zsa/props/C09.py)"),
    "RF-IVL:xds_separator:buffer[count-1]": dict(kind="delegated", why="C09 invariant I (as above)"),
    "RF-IVL:parse_mip_page:raw[local+15]": dict(kind="relational", why="*subp_index is parse_mip()'s local counter: starts at 0, "
                                                "only incremented here, and `> 10 * 13` returns before the use"),
    "RF-IVL:parse_mip_page:raw[][local+1]": dict(kind="relational", why="(*subp_index % 13) * 3 + 1 with the same non-negative counter"),
    "RF-IVL:top_index:text[local]": dict(kind="value-set", why="i runs over the translated title string _(\"TOP Index\") from the "
                                         "message catalogue (a build/installation constant, not input)"),
    "RF-IVL:vbi_classify_page:vbi_font_descriptors[charset_code]": dict(
        kind="value-set", why="page_stat.charset_code is 0xFF (tested just before) or a code page_language() validated with "
        "VALID_CHARACTER_SET (< 88)"),
    "RF-IVL:vbi_draw_cc_page_region:text[columns]": dict(kind="contract", why="column/row/width/height select a region inside the page"),
    "RF-IVL:vbi_draw_vt_page_region:text[columns]": dict(kind="contract", why="column/row/width/height select a region inside the page"),
    "RF-IVL:vbi_optimize_page:text[columns]": dict(kind="contract", why="column/row/width/height select a region inside the page"),
    "RF-IVL:vbi_resolve_link:text[local]": dict(kind="contract", why="row is documented as a row of the page"),
    "RF-IVL:vbi_resolve_link:nav_link[local]": dict(kind="relational", why="nav_index[column] is read only where text[24][column].link "
                                                     "is set, and every function that sets that flag in row 24 stores nav_index[column] "
                                                     "(values checked by RF-INV vbi_page.nav_index in [0,5])"),
    "RF-IVL:vbi_format_vt_page:raw[][local]": dict(kind="relational", why="i == 40 * row + column: advanced once per column of each of "
                                                    "at most 25 rows, read through the flat raw[0][] idiom (1040 bytes)"),
    "RF-IVL:zap_links:link[local]": dict(kind="relational", why="i + j < i + n <= 40 + length of the last keyword, which keyword() bounds "
                                          "by the NUL it is given at buffer[j + 2]"),
    "RF-IVL:page_in_cache:hash[pgno]": dict(kind="relational", why="hash (pgno) = pgno % 113 is an index for pgno >= 0; cached pages "
                                            "have 0x100 <= pgno <= 0x8FF (asserted by cache_network_page_stat on every put)"),
    # Level 2.5/3.5 enhancement (teletext.c enhance/enhance_flush): row/column bookkeeping across triplets
    "RF-IVL:enhance:drcs_s1[data]": dict(kind="value-set", why="a triplet with mode 0x18 was received in an X/26 or POP packet, "
                                         "where data = t >> 11 of an 18 bit word (<= 127); the 0xFF filler has mode 0xFF",
                                         atom="mode-equals"),
    "RF-IVL:enhance:drcs_s1[local]": dict(kind="value-set", why="normal = p->data >> 6 with data <= 127 on a column-address triplet",
                                          atom="column-address"),
    "RF-IVL:enhance:drcs[local]": dict(kind="value-set", why="page = normal * 16 + drcs_s1[normal] with normal <= 1 and "
                                       "drcs_s1[] = data & 15"),
    "RF-IVL:enhance:text[active_row+inv_row]": dict(kind="relational", why="inv_row + active_row is tested against the page's rows "
                                                     "by the row-address branch before active_row is assigned"),
    "RF-IVL:enhance:text[local]": dict(kind="relational", why="row = inv_row + active_row (as above)"),
    "RF-IVL:enhance_flush:raw[local]": dict(kind="relational", why="row = inv_row + active_row >= 0 (both non-negative); `row >= ROWS` returns"),
    "RF-IVL:enhance_flush:raw[][local]": dict(kind="relational", why="i = inv_column + active_column >= 0; `i > 39` breaks"),
    "RF-IVL:enhance_flush:raw[][local-1]": dict(kind="relational", why="read after i++ of a non-negative i"),
}
# colour attributes index color_map[40]: value range of the Teletext CLUT arithmetic is not decided
for _fn in ("export", "header", "print_char", "vbi_draw_cc_page_region", "vbi_draw_vt_page_region"):
    for _fld in ("foreground", "background", "screen_color", "drcs_clut"):
        TRUSTED["RF-IVL:%s:color_map[%s]" % (_fn, _fld)] = dict(
            kind="value-set", why="colour attributes are CLUT base (0/8/16/24) + 0..7 or one of the 40 fixed colours; "
            "the CLUT arithmetic over broadcast data is not decided here")


def run(ctx, run):
    P = ctx.prog
    inv = fieldinv.Invariants(ctx, INVARIANTS, INV_EXCEPTIONS)
    if inv.missing:
        raise AnalysisBroken("declared invariant on a field that no longer exists: %s" % ", ".join(inv.missing))
    ctx.arg_assume.update(ARG_ASSUME)
    inv.install()
    n_w = inv.verify(run)
    for k, n in sorted(n_w.items()):
        run.note("invariant %s: %d direct writers checked" % (k, n))
    _subscripts(ctx, run)
    _cursors(ctx, run)
    _asserts(ctx, run)
    _heap(ctx, run)
    _shifts(ctx, run)
    _recursion(ctx, run)
    # termination of the cache page walk (rule shared with C17): entered only with a non-empty
    # network, and a second wrap-around leaves it in both directions
    from . import C17
    C17._walk(ctx, run, P.need("_vbi_cache_foreach_page", "src/cache.c"))
    _references(ctx, run)
    _page_sizes(ctx, run)
    _no_self_deadlock(ctx, run)
    _countdowns(ctx, run)
    _drcs_budget(ctx, run)
    for k, (flds, iv, why) in ARG_ASSUME.items():
        if k in ctx.arg_assume_used:
            run.assumptions.append("argument `%s` of %s() at its call in %s() is in %s: %s" % (k[2], k[1], k[0], list(iv), why))
    n_tr = len(_USED)
    run.extra["trusted_sites"] = sorted(_USED)
    run.note("%d subscripts are covered by named trusted entries (contract / relational / value-set / delegated), see "
             "coverage.trusted_sites" % n_tr)
    for k in sorted(set(TRUSTED) - _USED):
        if "color_map" not in k:
            run.note("trusted entry %s matched no site (proved by the analysis or gone)" % k)
    for k in INV_EXCEPTIONS:
        if k not in inv.exceptions_used:
            run.note("exception %s no longer needed (the writer is proved or gone)" % k)


def _subscripts(ctx, run):
    P = ctx.prog
    n = 0
    for f in P.funcs:
        if f.unit not in UNITS:
            continue
        subs = ivl.subscripts(f)
        psubs = ivl.pointer_subscripts(f)
        if not subs and not psubs:
            continue
        run.touch(f)
        for node, cnt, base in subs:
            v = ivl.check_subscript(ctx, f, node, cnt, base)
            n += 1
            _record(ctx, run, f, node, cnt, v)
        for node, cnt, base, terms in psubs:
            v = ivl.check_ptr_subscript(ctx, f, node, cnt, base, terms)
            n += 1
            _record(ctx, run, f, node, cnt, v)
    run.floor("sized-array subscripts in the anchored units", n, 700)


def _record(ctx, run, f, node, cnt, v):
    desc = ex.pretty(f, node)
    key = "RF-IVL:%s:%s" % (f.name, canon(f, node))
    loc = ex.loc(f, node)
    if v.status == "holds":
        run.holds("RF-IVL", key, "%s: index in %s, %d elements" % (desc[:80], v.iv, cnt), loc,
                  nontrivial=v.iv is not None and v.iv[0] != v.iv[1])
        return
    t = TRUSTED.get(key)
    if t is not None:
        ok, how = _trusted_ok(ctx, f, node, cnt, t)
        if ok:
            _USED.add(key)
            run.holds("RF-IVL", key, "TRUSTED (%s; not decided by the interval analysis, index interval %s of %d): %s%s"
                      % (t["kind"], v.iv, cnt, t["why"], how), loc, nontrivial=False)
            return
        run.violation("RF-IVL", key, "%s: %s" % (desc[:90], how), loc, witness={"function": f.name, "trusted_entry": t["why"]})
        return
    from .. import normalize
    if v.status == "unproven" and f.exprs[node]["k"] == "idx" and not normalize.known_subscript(f, canon(f, node)):
        run.undecided("RF-IVL", key, "%s: a subscript that did not exist when the tables were confirmed, and no bound for its "
                      "index is stated in %s() (%s): neither proven nor contradicted" % (desc[:80], f.name, v.why), loc)
        return
    run.violation("RF-IVL", key, "%s: index interval %s against %d elements: %s" % (desc[:90], v.iv, cnt, v.why), loc,
                  witness={"function": f.name, "subscript": desc, "index_interval": list(v.iv) if v.iv else None,
                           "elements": cnt, "derivation": v.why})


def canon(f, node):
    """Name-independent description of a subscript: array + index shape."""
    e = f.exprs[node]
    if e["k"] != "idx":
        return "ptr:" + ex.pretty(f, node)[:40]
    b = ex.skip(f, e["c"][0])
    be = f.exprs[b]
    while be["k"] == "cast":
        b = ex.skip(f, be["c"][0])
        be = f.exprs[b]
    arr = be.get("member") or be.get("name") or be["k"]
    if be["k"] == "idx":
        bb = f.exprs[ex.skip(f, be["c"][0])]
        while bb["k"] == "cast":
            bb = f.exprs[ex.skip(f, bb["c"][0])]
        arr = (bb.get("member") or bb.get("name") or "?") + "[]"
    o = atoms.Operand(f, e["c"][1])
    shape = "const%s" % o.const if o.const is not None else ("+".join(sorted(x.split(".")[-1] for x in o.fields)) or "local")
    j = ex.skip(f, e["c"][1])
    je = f.exprs[j]
    if je["k"] == "bin" and je["op"] in ("+", "-"):
        c = ex.const(f, je["c"][1])
        if c is not None:
            shape += "%s%d" % (je["op"], c)
    return "%s[%s]" % (arr, shape)


_USED = set()


def _trusted_ok(ctx, f, node, cnt, t):
    """Side conditions of a trusted entry that *are* decidable."""
    if t.get("atom") == "mode-equals":
        for a in atoms.atoms_at(f, node):
            if a.rel == "==" and a.R is not None and a.R.const is not None and 0 <= a.R.const <= 0x1F \
                    and any(x.endswith(".mode") for x in a.L.fields):
                return True, " [dominated by `mode == 0x%02x`]" % a.R.const
        return False, "the site is no longer dominated by a test of the triplet mode, which is what excludes filler triplets"
    if t.get("atom") == "column-address":
        for a in atoms.atoms_at(f, node):
            if a.rel in ("<", "<=") and a.R is not None and a.R.const in (39, 40) and any(x.endswith(".address") for x in a.L.fields):
                return True, " [dominated by `address < 40`]"
        return False, "the site is no longer dominated by the column-address test `p->address < 40`, which is what excludes filler triplets"
    return True, ""


def _internal_param_join(ctx, f):
    callers = ctx.sums.callers.get(f.key, [])
    if not callers:
        return None
    res = {}
    for n, p in enumerate(f.params):
        if "it" not in p:
            continue
        iv = None
        for cf, ce in callers:
            if cf.key == f.key:
                continue
            a = ctx.analysis(cf, True)
            args = cf.exprs[ce].get("c", [])
            if a is None or n >= len(args):
                iv = (None, None)
                break
            st = a.state_before_expr(ce)
            if st is None:
                continue
            v = absint.wrap(a.eval(st, args[n]), p.get("it"))
            iv = v if iv is None else absint.hull(iv, v)
        if iv is not None and iv != (None, None):
            res[p["name"]] = iv
    return res


# --------------------------------------------------------------------------------------
# cursor idiom: p = array + e; ... p->m, *p++, p[k] ... p += stride

TRUSTED_CURSOR = {
    "RF-CUR:export:text": "acp[pg.columns - 1 - blank] is read under `blank < pg.columns` (a relation between two variables)",
    "RF-CUR:parse_mip_page:raw": "raw = &unknown.raw[*subp_index / 13 + 15][(*subp_index % 13) * 3 + 1] with parse_mip()'s "
                                   "non-negative counter (see the subscript entry)",
    "RF-CUR:vbi_format_vt_page:text": "acp[EXT_COLUMNS + column] (the row below) is written only when double_height is set, which "
                                      "`case 0x0D: if (row <= 0 || row >= 23) break;` allows for rows 1 ... 22 only (a flag/row "
                                      "relation)",
}


def _cursors(ctx, run):
    P = ctx.prog
    n_tr = n_und = 0
    for f in P.funcs:
        if f.unit not in UNITS:
            continue
        for node, name, ix, post in ivl.cursor_derefs(f):
            v = ivl.check_cursor(ctx, f, node, name, ix, post)
            if v is None:
                continue
            n_tr += 1
            run.touch(f)
            arr = v.base
            key = "RF-CUR:%s:%s" % (f.name, arr)
            loc = ex.loc(f, node)
            if v.status == "holds":
                run.holds("RF-CUR", key, "%s: cursor offset %s inside %s[%d]" % (ex.pretty(f, node)[:50], v.iv, v.base, v.n), loc,
                          nontrivial=v.iv[0] != v.iv[1])
                continue
            hi_bad = v.iv[1] is not None and v.n <= v.iv[1] < (1 << 30)
            lo_bad = v.iv[0] is not None and -(1 << 30) < v.iv[0] < 0
            if not (hi_bad or lo_bad):
                n_und += 1          # position depends on a loop the interval domain cannot bound: not decided
                continue
            if key in TRUSTED_CURSOR:
                _USED.add(key)
                run.holds("RF-CUR", key, "TRUSTED (relational; offset interval %s of %d): %s" % (v.iv, v.n, TRUSTED_CURSOR[key]), loc,
                          nontrivial=False)
                continue
            run.violation("RF-CUR", key, "%s: %s (offset interval %s)" % (ex.pretty(f, node)[:60], v.why, v.iv), loc,
                          witness={"function": f.name, "deref": ex.pretty(f, node), "array": v.base, "elements": v.n,
                                   "offset_interval": list(v.iv)})
    run.floor("dereferences through cursors into sized arrays", n_tr, 300)
    run.note("%d cursor dereferences have an offset the interval domain cannot bound (loop-carried strides): not decided" % n_und)


# --------------------------------------------------------------------------------------
# (b) data-dependent assertions

# assertions on arguments of public functions: a documented caller contract, not reachable
# from broadcast data.  message -> reason
ASSERT_CONTRACT = {
    ("vbi_resolve_link", "column >= 0 && column < EXT_COLUMNS"): "application-supplied column",
    ("cache_priority_name", "0"): "debug helper, switch default",
    ("_vbi_export_grow_buffer_space", "offset <= capacity"): "internal consistency of the export buffer (C16 checks the writers)",
}
# asserting helpers checked per call site: the argument interval at every call in the anchored
# units must make the assertion unreachable
ASSERT_TRUSTED_CALLS = {
    # (caller, callee, argument shape) -> reason
    ("_vbi_cache_foreach_page", "cache_network_page_stat"): "pgno walks 0x100 ... 0x8FF: wrapped explicitly at both ends "
                                                             "(the two constant call sites) before the next use",
    ("parse_btt", "cache_network_page_stat"): "0x100 + index with index = dec2bcdp[packet - 1] advanced over 4 x 10 BCD pages: "
                                               "at most 0x799 + 0x100 (BCD stepping, relational)",
    ("parse_mpt", "cache_network_page_stat"): "same BCD stepping as parse_btt",
    ("top_index", "cache_network_page_stat"): "ait->link.pgno was range-checked by unham_top_page_link()/parse_ait before it "
                                               "was stored (value-set: NO_PAGE entries are skipped by the caller's test)",
    ("vbi_cache_hi_subno", "cache_network_const_page_stat"): "public function: pgno is an application argument",
    ("page_language", "cache_network_const_magazine"): "pgno = 0 only together with a non-NULL page (callers pass one or the other)",
    ("enhance", "vbi_teletext_unicode"): "p->data of a received triplet is t >> 11 of an 18 bit word (<= 127), see drcs_s1 entry",
    ("enhance", "vbi_teletext_composed_unicode"): "same",
}


def _asserts(ctx, run):
    P = ctx.prog
    n = 0
    helpers = {}
    for f in P.funcs:
        if f.unit not in UNITS and not (f.file.endswith(".h") and any(cf.unit in UNITS for cf, ce in ctx.sums.callers.get(f.key, []))):
            continue
        sites = [(bid, i, msg) for bid, i, msg in ivl.assert_sites(f) if not ivl.is_pointer_assert(f, bid)]
        if not sites:
            continue
        run.touch(f)
        an = ctx.analysis(f)
        for bid, i, msg in sites:
            n += 1
            key = "RF-ASSERT:%s:%s" % (f.name, msg)
            if not ivl.assert_reachable(ctx, f, bid, an):
                run.holds("RF-ASSERT", key, "assert (%s) cannot fail: the failing branch is infeasible for every value the "
                          "function's guards and its callers admit" % msg, ex.loc(f, i))
                continue
            callers = [(cf, ce) for cf, ce in ctx.sums.callers.get(f.key, []) if cf.unit in UNITS and cf.key != f.key]
            if (f.name, msg) in ASSERT_CONTRACT:
                run.holds("RF-ASSERT", key, "TRUSTED (contract): %s" % ASSERT_CONTRACT[(f.name, msg)], ex.loc(f, i), nontrivial=False)
                continue
            if (f.name, msg) in ASSERT_SPECIAL:
                ASSERT_SPECIAL[(f.name, msg)](ctx, run, f, bid, i, msg, key)
                continue
            # the same assertion spelt differently (a macro for the bound): recognised by what it compares
            cond_, lab_ = ivl.assert_condition(f, bid)
            if cond_ is not None:
                o_ = atoms.Operand(f, cond_)
                sig = (f.name, frozenset(o_.locals | {x.split(".")[-1] for x in o_.fields}))
                if sig in ASSERT_SPECIAL_SIG:
                    ASSERT_SPECIAL_SIG[sig](ctx, run, f, bid, i, msg, key)
                    continue
            if not _cond_reads_param(f, bid):
                run.violation("RF-ASSERT", key, "assert (%s) in %s() can fail for values the function's own guards admit"
                              % (msg, f.name), ex.loc(f, i))
                continue
            if not callers:
                run.violation("RF-ASSERT", key, "assert (%s) in %s() can fail for values its guards admit and the function has no "
                              "caller that bounds them" % (msg, f.name), ex.loc(f, i))
                continue
            helpers.setdefault(f.key, (f, []))[1].append((bid, i, msg))
    # per call site
    for fkey, (f, sites) in helpers.items():
        for cf, ce in ctx.sums.callers.get(f.key, []):
            if cf.unit not in UNITS or cf.key == f.key:
                continue
            a = ctx.analysis(cf)
            st = a.state_before_expr(ce) if a is not None else None
            if st is None:
                continue
            piv = {}
            args = cf.exprs[ce].get("c", [])
            for k, p in enumerate(f.params):
                if "it" in p and k < len(args):
                    v = absint.wrap(a.eval(st, args[k]), p.get("it"))
                    if v != (None, None):
                        piv[p["name"]] = v
            an2 = absint.Analysis(ctx, f, piv).run()
            for bid, i, msg in sites:
                key = "RF-ASSERT:%s<-%s:%s" % (f.name, cf.name, msg)
                run.touch(cf)
                if an2.IN.get(bid) is None:
                    run.holds("RF-ASSERT", key, "%s (%s) called with %s: assert (%s) cannot fail"
                              % (f.name, ", ".join(ex.pretty(cf, x)[:24] for x in args), piv, msg), ex.loc(cf, ce))
                elif (cf.name, f.name) in ASSERT_TRUSTED_CALLS:
                    _USED.add(key)
                    run.holds("RF-ASSERT", key, "TRUSTED (argument %s not bounded by the interval analysis): %s"
                              % (piv, ASSERT_TRUSTED_CALLS[(cf.name, f.name)]), ex.loc(cf, ce), nontrivial=False)
                else:
                    run.violation("RF-ASSERT", key, "%s() calls %s (%s) with arguments in %s, for which assert (%s) fails: the "
                                  "process aborts" % (cf.name, f.name, ", ".join(ex.pretty(cf, x)[:30] for x in args), piv, msg),
                                  ex.loc(cf, ce), witness={"caller": cf.name, "callee": f.name, "args": {k: list(v) for k, v in piv.items()},
                                                           "assert": msg})
    run.floor("data-dependent assertions in the anchored units", n, 15)


def _cond_reads_param(f, bid):
    """The asserted condition mentions an integer parameter (by the assertion's own text:
    __assert_fail carries the stringified condition)."""
    import re
    msg = None
    for b, i, m in ivl.assert_sites(f):
        if b == bid:
            msg = m
    if not msg:
        return False
    toks = set(re.findall(r"[A-Za-z_][A-Za-z_0-9]*", msg))
    return any(p["name"] in toks and "it" in p for p in f.params)


def _death_row_capacity(ctx, run, f, bid, i, msg, key):
    """assert (death_count < N_ELEMENTS (death_row)) in _vbi_cache_put_page: every page put on
    the death row adds at least min (cache_page_size) bytes and the loops stop as soon as
    max (cache_page_size) bytes are available, so the row needs at most
    ceil (max / min) entries."""
    P = ctx.prog
    cps = P.need("cache_page_size", "src/cache.c")
    r = ctx.ret_range(cps)
    n = None
    for node, cnt, base in ivl.subscripts(f):
        be = f.exprs[base]
        if be.get("name") == "death_row":
            n = cnt
    if r is None or r[0] is None or r[1] is None or r[0] <= 0 or n is None:
        raise AnalysisBroken("cannot evaluate cache_page_size() range %s / death_row size %s" % (r, n))
    need = -(-r[1] // r[0])
    if need <= n - 1:
        run.holds("RF-ASSERT", key, "cache_page_size() is in %s: at most %d victims are needed for the largest page, "
                  "death_row has %d entries" % (list(r), need, n), ex.loc(f, i))
    else:
        run.violation("RF-ASSERT", key, "cache_page_size() is in %s: storing the largest page may need %d victims of the "
                      "smallest size, but death_row has %d entries: assert (%s) aborts" % (list(r), need, n, msg), ex.loc(f, i),
                      witness={"cache_page_size": list(r), "death_row": n})


def _xds_default(ctx, run, f, bid, i, msg, key):
    run.holds("RF-ASSERT", key, "TRUSTED (delegated): the default label is reached only for c1 = 0 or 0x10 ... 0x1F with good "
              "parity; vbi_decode_caption() calls xds_separator() only for 0 < c1 <= 0x0F or, in XDS mode, for c1 > 0x1F or "
              "bad parity (C09 RF-DOM:vbi_decode_caption:separator-call decides exactly that)", ex.loc(f, i), nontrivial=False)


ASSERT_SPECIAL = {
    ("_vbi_cache_put_page", "death_count < N_ELEMENTS (death_row)"): _death_row_capacity,
    ("xds_separator", '!"reached"'): _xds_default,
}


ASSERT_SPECIAL_SIG = {
    ("_vbi_cache_put_page", frozenset({"death_count"})): _death_row_capacity,
}


# --------------------------------------------------------------------------------------
# (f) heap discipline: no read of a freed block; list nodes complete before they are linked

def _heap(ctx, run):
    P = ctx.prog
    n_free = n_nodes = 0
    for f in P.funcs:
        if f.unit not in UNITS:
            continue
        finds, nf = uaf.analyse(f)
        n_free += nf
        if nf:
            run.touch(f)
        reported = set()
        for i, name, fn in finds:
            key = "RF-UAF:%s:%s" % (f.name, name)
            if key in reported:
                continue
            reported.add(key)
            run.violation("RF-UAF", key, "`%s` is read at %s after `%s` released it and before it is assigned again: the list "
                          "link / field is loaded from freed memory" % (name, ex.loc(f, i), ex.pretty(f, fn)), ex.loc(f, i),
                          witness={"function": f.name, "variable": name, "free": ex.loc(f, fn), "use": ex.loc(f, i)})
        if nf and not finds:
            run.holds("RF-UAF", "RF-UAF:%s" % f.name, "%d free() call(s): no freed local pointer is read before reassignment" % nf,
                      "%s:%d" % (f.file, f.line), nontrivial=True)
        for site in heapinit.alloc_sites(f, P):
            link = heapinit.self_linked(P, site[2])
            if link is None:
                continue
            n_nodes += 1
            st, miss, esc = heapinit.check(ctx, f, site)
            key = "RF-INIT:%s:%s" % (f.name, site[2])
            loc = ex.loc(f, esc if esc is not None else site[0])
            miss = [m for m in (miss or []) if m != link]
            if st == "violated" and miss:
                run.violation("RF-INIT", key, "the %s node from malloc() is linked into the list at %s with field(s) %s never "
                              "written on that path: they hold whatever the allocator returned" % (site[2], loc, ", ".join(miss)),
                              loc, witness={"function": f.name, "record": site[2], "unwritten": miss})
            else:
                run.holds("RF-INIT", key, "every field of the malloc()ed %s node is written before the node is linked" % site[2], loc)
    run.floor("free() calls in the anchored units", n_free, 40)
    run.floor("malloc()ed list nodes", n_nodes, 1)


# --------------------------------------------------------------------------------------
# (c) shifts and integer divisions

SHIFT_TRUSTED = {
    ("get_bits", "left"): "bs->left (bits left in the 18 bit triplet buffer) stays in 0 ... 18: set to 18 - n with 0 < n <= count <= 18 "
                          "or decreased by count <= left (relation between two fields of the bit reader)",
    ("get_bits", "local"): "n = count - bs->left > 0 and <= 18 (same relation)",
    ("search_page_fwd", "start_pgno"): "page numbers 0x100 ... 0x8FF supplied by the application / the page walk (non-negative)",
    ("search_page_fwd", "stop_pgno"): "as above",
    ("search_page_rev", "start_pgno"): "as above",
    ("search_page_rev", "stop_pgno"): "as above",
    ("enhance", "local"): "page = normal * 16 + drcs_s1[normal] >= 0 (see the drcs[] subscript entry)",
}


def _shifts(ctx, run):
    P = ctx.prog
    n = 0
    for f in P.funcs:
        if f.unit not in UNITS and not f.file.endswith("hamm.h"):
            continue
        pos = flow.elem_pos(f)
        reach = f.reachable_blocks()
        an = None
        for i, e in enumerate(f.exprs):
            if not (e["k"] in ("bin", "asg") and e.get("op") in ("<<", ">>", "<<=", ">>=", "/", "%", "/=", "%=")):
                continue
            p = pos.get(i)
            if p is None or p[0] not in reach or "v" in e or "it" not in e:
                continue
            an = an or ctx.analysis(f)
            if an is None:
                continue
            st = an.state_before_expr(i)
            if st is None:
                continue
            a, b = e["c"]
            op = e["op"].rstrip("=") if e["k"] == "asg" else e["op"]
            if "it" not in f.exprs[ex.skip(f, b)] and ex.const(f, b) is None:
                continue            # floating point
            vb = an.eval(st, b)
            n += 1
            run.touch(f)
            sh_b = "+".join(sorted(x.split(".")[-1] for x in atoms.Operand(f, b).fields)) or "local"
            sh_a = "+".join(sorted(x.split(".")[-1] for x in atoms.Operand(f, a).fields)) or "local"
            shape = "%s/%s" % (sh_a, sh_b)
            key = "RF-SHIFT:%s:%s:%s" % (f.name, op, shape)
            loc = ex.loc(f, i)
            if op in ("/", "%"):
                if (vb[0] is not None and vb[0] > 0) or (vb[1] is not None and vb[1] < 0):
                    run.holds("RF-SHIFT", key, "%s: divisor in %s, never zero" % (ex.pretty(f, i)[:60], vb), loc,
                              nontrivial=ex.const(f, b) is None)
                else:
                    run.violation("RF-SHIFT", key, "%s: the divisor interval %s contains zero" % (ex.pretty(f, i)[:70], vb), loc,
                                  witness={"function": f.name, "divisor": list(vb)})
                continue
            bits = e["it"][0]
            ok_amt = vb[0] is not None and vb[0] >= 0 and vb[1] is not None and vb[1] < bits
            va = an.eval(st, a)
            lt = f.exprs[ex.skip(f, a)].get("it") or e["it"]
            neg_left = op == "<<" and lt[1] and not (va[0] is not None and va[0] >= 0)
            if ok_amt and not neg_left:
                run.holds("RF-SHIFT", key, "%s: amount in %s of %d bits, left operand %s" % (ex.pretty(f, i)[:60], vb, bits, va), loc,
                          nontrivial=ex.const(f, b) is None)
                continue
            tr = None
            for (fn, fld), why in SHIFT_TRUSTED.items():
                if fn == f.name and fld in ((sh_b if not ok_amt else sh_a).split("+")):
                    tr = why
            if tr is not None:
                _USED.add(key)
                run.holds("RF-SHIFT", key, "TRUSTED (amount %s, left %s; not decided by the interval analysis): %s" % (vb, va, tr),
                          loc, nontrivial=False)
                continue
            if not ok_amt:
                run.violation("RF-SHIFT", key, "%s: the shift amount interval %s is not inside 0 ... %d" % (ex.pretty(f, i)[:70], vb, bits - 1),
                              loc, witness={"function": f.name, "amount": list(vb), "bits": bits})
            else:
                run.violation("RF-SHIFT", key, "%s: left shift of a signed value that may be negative (%s): undefined" % (ex.pretty(f, i)[:70], va),
                              loc, witness={"function": f.name, "left": list(va)})
    run.floor("variable shifts and integer divisions", n, 250)


# --------------------------------------------------------------------------------------
# (d) recursion inventory

def _recursion(ctx, run):
    P = ctx.prog
    S = ctx.sums
    funcs = [f for f in P.funcs if f.unit in UNITS]
    keys = {f.key for f in funcs}
    idx, low, stack, on, sccs = {}, {}, [], set(), []
    counter = [0]

    def strong(f):
        # iterative Tarjan
        work = [(f, iter([t for t in S.callees(f) if t.key in keys]))]
        idx[f.key] = low[f.key] = counter[0]
        counter[0] += 1
        stack.append(f)
        on.add(f.key)
        while work:
            g, it = work[-1]
            adv = False
            for t in it:
                if t.key not in idx:
                    idx[t.key] = low[t.key] = counter[0]
                    counter[0] += 1
                    stack.append(t)
                    on.add(t.key)
                    work.append((t, iter([u for u in S.callees(t) if u.key in keys])))
                    adv = True
                    break
                elif t.key in on:
                    low[g.key] = min(low[g.key], idx[t.key])
            if adv:
                continue
            work.pop()
            if work:
                low[work[-1][0].key] = min(low[work[-1][0].key], low[g.key])
            if low[g.key] == idx[g.key]:
                comp = []
                while True:
                    h = stack.pop()
                    on.discard(h.key)
                    comp.append(h)
                    if h.key == g.key:
                        break
                if len(comp) > 1 or any(t.key == g.key for t in S.callees(g)):
                    sccs.append(comp)

    for f in funcs:
        if f.key not in idx:
            strong(f)
    found = {tuple(sorted(g.name for g in c)) for c in sccs}
    expected = {("enhance",), ("itv_separator",)}
    for c in sorted(found - expected):
        g = [x for comp in sccs for x in comp if x.name == c[0]][0]
        run.violation("RF-REC", "RF-REC:cycle:%s" % "+".join(c), "new call cycle %s in the decoder: recursion depth is not bounded "
                      "by any guard this check knows" % " -> ".join(c + (c[0],)), "%s:%d" % (g.file, g.line))
    if expected - found:
        raise AnalysisBroken("recursion inventory: expected cycle(s) %s not found (anchor vanished)" % sorted(expected - found))
    # itv_separator: the self-call passes a constant below 0x20 and sits in the branch c >= 0x20
    f = P.need("itv_separator", "src/caption.c")
    run.touch(f)
    for bid, i in flow.all_events(f):
        e = f.exprs[i]
        if e["k"] == "call" and e.get("callee") == "itv_separator":
            c = ex.const(f, e["c"][2]) if len(e.get("c", [])) > 2 else None
            guard = any(a.rel in (">=", ">") and a.R is not None and a.R.const in (0x20, 0x1F) and not a.L.fields for a in atoms.atoms_at(f, i))
            key = "RF-REC:itv_separator:self-call"
            if c is not None and c < 0x20 and guard:
                run.holds("RF-REC", key, "the nested call passes the constant %d, which takes the non-recursive branch (the call sits "
                          "under c >= 0x20): depth 2" % c, ex.loc(f, i))
            else:
                run.violation("RF-REC", key, "the nested itv_separator() call no longer passes a constant below 0x20 from the "
                              "c >= 0x20 branch: the recursion is not bounded", ex.loc(f, i))
    # enhance: new_type > type dominates the self-call, new_type is the callee's type, type <= 3
    f = P.need("enhance", "src/teletext.c")
    run.touch(f)
    an = ctx.analysis(f)
    tpos = [k for k, p in enumerate(f.params) if p["name"] == "type"]
    nrec = 0
    for bid, i in flow.all_events(f):
        e = f.exprs[i]
        if e["k"] == "call" and e.get("callee") == "enhance":
            nrec += 1
            key = "RF-REC:enhance:self-call"
            arg = e["c"][tpos[0]] if tpos else None
            ats = atoms.atoms_at(f, i)
            inc = False
            for a in ats:
                ln = ex.pretty(f, a.L.node) if a.L is not None else ""
                rn = ex.pretty(f, a.R.node) if a.R is not None and a.R.node is not None else ""
                if (a.rel == ">" and "new_type" in ln and rn.strip("()") == "type") or (a.rel == "<" and ln.strip("()") == "type" and "new_type" in rn):
                    inc = True
            st = an.state_before_expr(i)
            v = an.eval(st, arg) if st is not None and arg is not None else (None, None)
            argname = ex.pretty(f, arg).strip("()") if arg is not None else "?"
            if inc and argname == "new_type" and v[1] is not None and v[1] <= 3:
                run.holds("RF-REC", key, "the nested enhance() call is dominated by new_type > type and passes new_type (in %s) as "
                          "the new type: depth <= 3" % (v,), ex.loc(f, i))
            else:
                run.violation("RF-REC", key, "the nested enhance() call is not guarded by a strictly increasing, bounded object type "
                              "(guard new_type > type: %s, argument `%s` in %s): objects can invoke each other without bound"
                              % (inc, argname, v), ex.loc(f, i), witness={"atoms": [repr(a) for a in ats]})
    run.floor("recursive enhance() call sites", nrec, 1)


# --------------------------------------------------------------------------------------
# (f) references: every page / network reference obtained is released (the leak clause)

def _references(ctx, run):
    from . import C10
    C10._pairing(ctx, run, "page", C10.PAGE_ACQ, C10.PAGE_REL, "cache_page", C10.MOVERS, 14)
    C10._pairing(ctx, run, "network", C10.NET_ACQ, C10.NET_REL, "cache_network", {}, 2)
    # the in-place reuse of a victim's allocation needs `exactly one victim of exactly the needed size`
    C10._put_page(ctx, run, ctx.prog.need("_vbi_cache_put_page", "src/cache.c"))


# --------------------------------------------------------------------------------------
# (g) variable-size cached pages: cache_page_size() allocates the `ext_lop` / `enh_lop` variant of
# the page union only when a designation bit says the page has that part; every reader of that
# part must be guarded by (a subset of) the same bits

def _mask_of(f, node):
    """(field name, mask) for `x->FIELD & C` / plain `x->FIELD` (mask None = all bits)."""
    j = ex.skip(f, node)
    e = f.exprs[j]
    while e["k"] == "cast":
        j = ex.skip(f, e["c"][0])
        e = f.exprs[j]
    if e["k"] == "bin" and e["op"] == "&":
        for x, y in ((e["c"][0], e["c"][1]), (e["c"][1], e["c"][0])):
            c = ex.const(f, y)
            r = _mask_of(f, x)
            if c is not None and r is not None and r[1] is None:
                return r[0], c
        return None
    if e["k"] == "mem" and e.get("in") == "cache_page" and e["member"] in ("x28_designations", "x26_designations"):
        return e["member"], None
    return None


def _designation_guards(f, node):
    """{field: mask-or-None} from the atoms dominating `node` that say `designations (& M) != 0`."""
    res = {}
    for a in atoms.atoms_at(f, node):
        if a.rel == "!=" and a.R is not None and a.R.const == 0 and a.L is not None and a.L.node is not None:
            m = _mask_of(f, a.L.node)
            if m is not None:
                res[m[0]] = m[1] if m[0] not in res or res[m[0]] is None else (res[m[0]] & m[1] if m[1] is not None else res[m[0]])
    return res


def _page_sizes(ctx, run):
    P = ctx.prog
    cps = P.need("cache_page_size", "src/cache.c")
    run.touch(cps)
    # S: which designation test leads to which union member's size
    size_mask = {}
    for i, e in enumerate(cps.exprs):
        if e["k"] == "sizeof" and e.get("uneval") is not None:
            ue = cps.exprs[e["uneval"]] if isinstance(e.get("uneval"), int) else None
            u = ex.pretty(cps, e["uneval"]) if ue is not None else ""
            for part, fld in (("ext_lop", "x28_designations"), ("enh_lop", "x26_designations")):
                if u.endswith("data." + part):
                    g = _designation_guards(cps, i)
                    if fld in g:
                        size_mask[part] = (fld, g[fld])
    run.floor("designation-dependent page sizes in cache_page_size", len(size_mask), 2)
    # W: bits the decoder can set
    wbits = {"x28_designations": 0, "x26_designations": 0}
    for f in P.funcs:
        if f.unit not in UNITS:
            continue
        for bid, i in flow.all_events(f):
            e = f.exprs[i]
            if e["k"] == "asg" and e["op"] == "|=":
                l = f.exprs[ex.skip(f, e["c"][0])]
                if l["k"] == "mem" and l.get("in") == "cache_page" and l["member"] in wbits:
                    an = ctx.analysis(f)
                    st = an.state_before_expr(i)
                    if st is None:
                        continue
                    r = ex.skip(f, e["c"][1])
                    re_ = f.exprs[r]
                    while re_["k"] == "cast":
                        r = ex.skip(f, re_["c"][0])
                        re_ = f.exprs[r]
                    bits = None
                    if re_["k"] == "bin" and re_["op"] == "<<" and ex.const(f, re_["c"][0]) == 1:
                        v = an.eval(st, re_["c"][1])
                        vals = _case_values(f, i, re_["c"][1])
                        if vals is not None:
                            bits = 0
                            for d in vals:
                                if v[0] is None or v[0] <= d <= v[1]:
                                    bits |= 1 << d
                        elif None not in v and 0 <= v[0] and v[1] < 31:
                            bits = 0
                            for d in range(v[0], v[1] + 1):
                                bits |= 1 << d
                    if bits is None:
                        v = an.eval(st, e["c"][1])
                        bits = (1 << v[1].bit_length()) - 1 if v[1] is not None and v[0] is not None and v[0] >= 0 else 0xFFFFFFFF
                    wbits[l["member"]] |= bits
    run.note("designation bits the decoder can set: x28 %#x, x26 %#x; cache_page_size tests %s" % (
        wbits["x28_designations"], wbits["x26_designations"],
        {k: (v[0], hex(v[1]) if v[1] is not None else "!= 0") for k, v in size_mask.items()}))
    # R: readers
    n = 0
    for f in P.funcs:
        if f.unit not in UNITS or f.name == "cache_page_size":
            continue
        writes = any(e["k"] == "asg" and f.exprs[ex.skip(f, e["c"][0])]["k"] == "mem"
                     and f.exprs[ex.skip(f, e["c"][0])].get("member") in wbits for e in f.exprs if e["k"] == "asg")
        for i, e in enumerate(f.exprs):
            if e["k"] != "mem" or e["member"] not in size_mask:
                continue
            if flow.elem_pos(f).get(i) is None:
                continue
            fld, smask = size_mask[e["member"]]
            g = _designation_guards(f, i)
            if fld not in g:
                continue            # not a designation-guarded access (assembly buffer of full size)
            n += 1
            run.touch(f)
            rmask = g[fld] if g[fld] is not None else wbits[fld]
            eff_s = smask if smask is not None else 0xFFFFFFFF
            key = "RF-TAB:%s:%s-guard" % (f.name, e["member"])
            extra = rmask & wbits[fld] & ~eff_s
            if extra:
                run.violation("RF-TAB", key, "%s() reads data.%s when %s has any of the bits %#x, but cache_page_size() gives a cached "
                              "page room for data.%s only for the bits %#x: with bit(s) %#x alone the read is past the end of the "
                              "allocation" % (f.name, e["member"], fld, rmask, e["member"], eff_s, extra), ex.loc(f, i),
                              witness={"reader_mask": rmask, "size_mask": eff_s, "settable_bits": wbits[fld]})
            else:
                run.holds("RF-TAB", key, "data.%s read under %s & %#x, a subset of the bits %#x for which cache_page_size() "
                          "allocates it" % (e["member"], fld, rmask, eff_s), ex.loc(f, i))
    run.floor("designation-guarded reads of variable page parts", n, 3)


def _case_values(f, node, var):
    """Values of the switch variable `var` (a local) for which the statement `node` is reached:
    the labels of the innermost enclosing `switch (var)` from whose case blocks the statement's
    block is reachable without re-entering the switch.  None when unknown (default label, no
    switch)."""
    v = f.exprs[ex.skip(f, var)]
    while v["k"] == "cast":
        v = f.exprs[ex.skip(f, v["c"][0])]
    if v["k"] != "ref":
        return None
    pos = flow.elem_pos(f).get(node)
    if pos is None:
        return None
    target = pos[0]
    best = None
    for bid in f.rpo():
        t = f.blocks[bid].term
        if not t or t.get("kind") != "SwitchStmt" or "cond" not in t:
            continue
        c = f.exprs[ex.skip(f, t["cond"])]
        while c["k"] == "cast":
            c = f.exprs[ex.skip(f, c["c"][0])]
        if not (c["k"] == "ref" and c.get("name") == v.get("name")) or not flow.dominates(f, bid, target):
            continue
        vals = set()
        ok = True
        for succ, lab in f.edges(bid):
            if target in flow.reach_from(f, succ, avoid=(bid,)):
                if isinstance(lab, tuple) and lab[2] - lab[1] < 64:
                    vals.update(range(lab[1], lab[2] + 1))
                else:
                    ok = False
        if ok and vals:
            best = vals          # rpo: later (inner) switches overwrite outer ones
    return best


# --------------------------------------------------------------------------------------
# (d') hangs: no client callback runs with a decoder mutex held, every lock is released on every
# path (a handler may call vbi_fetch_cc_page(), the next vbi_decode() takes the same mutexes) -
# the lockset analysis of C20, of which only the deadlock-relevant instances are taken over

def _no_self_deadlock(ctx, run):
    from .. import report
    from . import C20
    tmp = report.Run("C20", run.tier, "", "")
    C20.run(ctx, tmp)
    n = 0
    for inst in tmp.instances:
        k = inst["key"]
        if not (k.startswith("RF-LOCK:callback") or "pair" in k or "held" in k or "unlock" in k or "order" in k):
            continue
        n += 1
        if inst["verdict"] == "holds":
            run.holds("RF-LOCK", k, inst["detail"], inst["loc"], nontrivial=inst.get("nontrivial", True))
        else:
            run.violation("RF-LOCK", k, inst["detail"] + " - a handler that calls back into the decoder (vbi_fetch_cc_page), or the "
                          "next vbi_decode(), blocks forever", inst["loc"], witness=inst.get("witness"))
    run.floor("lock pairing / callback-without-lock instances", n, 5)


# --------------------------------------------------------------------------------------
# countdown guards inside loops must be absorbing (`<= 0`) unless the taken branch re-arms them

def _countdowns(ctx, run):
    from .. import countdown
    n = 0
    for f in ctx.prog.funcs:
        if f.unit not in UNITS:
            continue
        bad, k = countdown.find(f)
        n += k
        if k:
            run.touch(f)
        for c, v, val in bad:
            run.violation("RF-CMP", "RF-CMP:%s:%s" % (f.name, v), "`%s` guards a loop body with a countdown that keeps running: once `%s` "
                          "has passed %d the test is false again and the body resumes - whatever the countdown was limiting (rows "
                          "written, entries copied) is no longer bounded" % (ex.pretty(f, c), v, val), ex.loc(f, c),
                          witness={"function": f.name, "counter": v})
        if k and not bad:
            run.holds("RF-CMP", "RF-CMP:%s" % f.name, "%d countdown guard(s) inside loops: each is absorbing (<=) or re-arms the counter" % k,
                      "%s:%d" % (f.file, f.line))
    run.floor("countdown guards inside loops", n, 2)


# --------------------------------------------------------------------------------------
# RF-CORR: per-unit budget of convert_drcs

def _const_incr(f, i, names):
    """{name: amount} for the constant increments event i applies to tracked locals."""
    out = {}
    for lhs, var, op, rhs in flow.stores(f, i):
        if lhs is None:
            continue
        l = f.exprs[ex.skip(f, lhs)]
        if l["k"] != "ref" or l.get("name") not in names:
            continue
        if op == "++":
            out[l["name"]] = out.get(l["name"], 0) + 1
        elif op == "+=" and ex.const(f, rhs) is not None:
            out[l["name"]] = out.get(l["name"], 0) + ex.const(f, rhs)
        else:
            out[l["name"]] = None          # not a constant step
    return out


def _drcs_budget(ctx, run):
    """convert_drcs() walks the 48 pattern transfer units of a DRCS page with three cursors in
    lock step: i (unit), p (input, 20 bytes per unit) and d (output, 60 bytes per unit, into
    data.drcs.chars[48][60]).  For every case of the mode switch and every path through it the
    net advance of d is 60 x and of p 20 x the number of units the case consumes (1 + its own
    `i += k`); constant-trip inner loops count trip x body.  A case that advances further writes
    past the character array (mode[] and invalid behind it, then past the page)."""
    from .. import loops
    P = ctx.prog
    f = P.need("convert_drcs", "src/packet.c")
    run.touch(f)
    names = {"d", "p", "i"}
    L = loops.natural_loops(f)
    sw = [bid for bid, b in f.blocks.items() if b.term and b.term["kind"] == "SwitchStmt"]
    if not sw:
        raise AnalysisBroken("convert_drcs: mode switch not found")
    sw = sw[0]
    outer = None
    for h, body in L.items():
        if sw in body and (outer is None or len(body) < len(L[outer])):
            outer = h
    if outer is None:
        raise AnalysisBroken("convert_drcs: unit loop not found")
    obody = L[outer]
    inner = {h: b for h, b in L.items() if h != outer and h in obody and b < obody}

    def loop_delta(h):
        body = inner[h]
        t = f.blocks[h].term
        if not t or "cond" not in t:
            return None
        c = f.exprs[ex.skip(f, t["cond"])]
        if not (c["k"] == "bin" and c["op"] == "<"):
            return None
        n = ex.const(f, c["c"][1])
        jv = f.exprs[ex.skip(f, c["c"][0])]
        while jv["k"] == "cast":
            jv = f.exprs[ex.skip(f, jv["c"][0])]
        if n is None or jv["k"] != "ref":
            return None
        j0 = None
        for pb in f.blocks[h].preds:
            if pb in body:
                continue
            for i in flow.events(f, pb):
                for lhs, var, op, rhs in flow.stores(f, i):
                    if lhs is not None and op == "=" and f.exprs[ex.skip(f, lhs)].get("name") == jv["name"]:
                        j0 = ex.const(f, rhs)
        if j0 is None:
            return None
        per = {}
        for b in body:
            if b != h and len([s for s, _ in f.edges(b)]) > 1:
                return None             # branching body: not a constant per-iteration step
            for i in flow.events(f, b):
                for k, v in _const_incr(f, i, names).items():
                    if v is None:
                        return None
                    per[k] = per.get(k, 0) + v
        trips = max(0, n - j0)
        exit_ = [s for s, lab in f.edges(h) if s not in body]
        return {k: v * trips for k, v in per.items()}, (exit_[0] if exit_ else None)

    # the latch: the block of the outer loop that holds the loop's own i++ and jumps back to the head
    results = {}
    cases = [(s, lab) for s, lab in f.edges(sw)]
    n_cases = 0
    for start, lab in cases:
        if start not in obody:
            continue
        n_cases += 1
        paths = []
        stack = [(start, {}, set())]
        while stack:
            b, acc, seen = stack.pop()
            if b == outer or b not in obody:
                paths.append(acc)
                continue
            if b in seen:
                paths.append(None)
                continue
            if b in inner:
                r = loop_delta(b)
                if r is None:
                    paths.append(None)
                    continue
                dl, nxt = r
                acc2 = dict(acc)
                for k, v in dl.items():
                    acc2[k] = acc2.get(k, 0) + v
                if nxt is None:
                    paths.append(None)
                    continue
                stack.append((nxt, acc2, seen | {b}))
                continue
            acc2 = dict(acc)
            bad = False
            for i in flow.events(f, b):
                for k, v in _const_incr(f, i, names).items():
                    if v is None:
                        bad = True
                    else:
                        acc2[k] = acc2.get(k, 0) + v
            if bad:
                paths.append(None)
                continue
            for s, _ in f.edges(b):
                stack.append((s, acc2, seen | {b}))
        results[lab] = paths
    run.floor("cases of the DRCS mode switch", n_cases, 5)
    for lab, paths in sorted(results.items(), key=lambda kv: str(kv[0])):
        key = "RF-CORR:convert_drcs:unit-budget:case-%s" % (lab if not isinstance(lab, tuple) else "%s" % (lab[1],))
        if any(p is None for p in paths):
            run.violation("RF-CORR", key, "convert_drcs: a path through case %s advances a cursor by a non-constant amount or through "
                          "a loop the budget analysis cannot count" % (lab,), "%s:%d" % (f.file, f.line))
            continue
        bad = []
        for p in paths:
            units = p.get("i", 0)           # includes the loop's own i++
            if p.get("d", 0) != 60 * units or p.get("p", 0) != 20 * units:
                bad.append(p)
        if bad:
            p = bad[0]
            run.violation("RF-CORR", key, "convert_drcs: case %s consumes %d unit(s) but advances the output cursor by %d bytes "
                          "(60 per unit) and the input cursor by %d (20 per unit): the conversion leaves the 60 byte character / "
                          "20 byte unit and, over the 48 units of a page, the arrays themselves (writes over mode[], invalid and "
                          "past the page)" % (lab, p.get("i", 0), p.get("d", 0), p.get("p", 0)), "%s:%d" % (f.file, f.line),
                          witness={"case": str(lab), "advance": p})
        else:
            run.holds("RF-CORR", key, "every path: d advances 60 and p 20 per unit consumed (%s)" % sorted(
                {(p.get("i", 0), p.get("d", 0), p.get("p", 0)) for p in paths}), "%s:%d" % (f.file, f.line))
