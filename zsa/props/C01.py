"""C01 — the service decoder survives every input.

Decided here (each a necessary condition of the statement):
  (a) RF-IVL    every subscript of a constant-size array in the 20 anchored units is in
                bounds for every index the function's own guards, the declared field
                invariants and the parameter joins admit;
      RF-INV    the declared field invariants themselves (every writer checked);
  (b) RF-ASSERT data-dependent assertions cannot fail;
  (c) RF-SHIFT  shift amounts inside the operand width, no shift of a possibly negative
                decode result, divisors non-zero;
  (d) RF-REC    recursion = the confirmed, guarded set;
  (f) RF-PAIR   page/network references released on every path; RF-UAF no use of a heap
                block after free(); RF-INIT list nodes initialised before they are linked.
"""
from .. import absint, atoms, ex, fieldinv, flow, ivl
from ..prog import AnalysisBroken

CLAUSE = ("memory safety and termination shapes of the service decoder (20 anchored units): every subscript of a constant-size "
          "array is inside the array for every index admitted by the function's guards, by the parameter values of all call "
          "sites and by the declared field invariants; every declared field invariant is re-established by every writer "
          "(direct stores, memset/memcpy, struct copies; no escaping address); data-dependent assertions cannot fail; shift "
          "amounts stay inside the operand width; the recursive call cycles are exactly the confirmed, guarded ones; cache "
          "page and network references are released on every path; a freed heap block is not used again; list nodes are "
          "initialised before they are linked.")
NOT_DECIDED = ("termination of data-dependent loops in general, signed overflow of accumulating counters, unbounded growth "
               "other than through reference leaks, the content of what is decoded; subscripts of pointer parameters whose "
               "extent is a caller contract (listed per site in the evidence as trusted, with the contract).")

UNITS = ["src/vbi.c", "src/packet.c", "src/teletext.c", "src/cache.c", "src/caption.c", "src/trigger.c", "src/wss.c",
         "src/lang.c", "src/tables.c", "src/search.c", "src/ure.c", "src/export.c", "src/exp-txt.c", "src/exp-html.c",
         "src/exp-gfx.c", "src/exp-vtx.c", "src/exp-templ.c", "src/conv.c", "src/packet-830.c", "src/vps.c"]

# --------------------------------------------------------------------------------------
# Declared field invariants (verified by fieldinv.Invariants.verify on every run)

INVARIANTS = [
    dict(rec="cc_channel", field="hidden", lo=0, hi=1, why="selects one of the two caption page buffers pg[2]"),
    dict(rec="cc_channel", field="row", lo=0, hi=14, why="caption cursor row; line = pg.text + row * 34"),
    dict(rec="cc_channel", field="row1", lo=0, hi=14, why="first row of the roll-up window; text[row1 * 34] is scrolled"),
    dict(rec="cc_channel", field="roll", lo=2, hi=15, init_written=True,
         why="roll-up depth; row1 + roll - 1 is the last window row; vbi_caption_init() runs vbi_caption_channel_switched(), "
             "which assigns roll (3 or ROWS) for all nine channels, before any caption byte is decoded"),
    dict(rec="cc_channel", field="col", lo=0, hi=33, why="caption cursor column into line[34]"),
    dict(rec="cc_channel", field="col1", lo=0, hi=33, why="start column of the current word in line[34]"),
    dict(rec="caption", field="itv_count", lo=0, hi=255, why="fill level of itv_buf[256]"),
    dict(rec="caption", field="curr_chan", lo=0, hi=8, why="index into channel[9]"),
    dict(rec="vbi_page", field="rows", lo=0, hi=25, why="text[] holds 25 rows of 41 columns (1056 cells)"),
    dict(rec="vbi_page", field="columns", lo=0, hi=41, why="text[] holds 25 rows of 41 columns (1056 cells)"),
    dict(rec="ttx_extension", field="charset_code", lo=0, hi=127, why="7 bit character set code; VALID_CHARACTER_SET() tests "
         "only the upper bound before indexing vbi_font_descriptors[88]"),
    dict(rec="cache_page", field="national", lo=0, hi=7, why="C12-C14 national option bits added to the character set code"),
    dict(rec="ttx_magazine", field="pop_lut", lo=-1, hi=7, why="index into pop_link[][8]; -1/0 = no link"),
    dict(rec="ttx_magazine", field="drcs_lut", lo=-1, hi=7, why="index into drcs_link[][8]; -1/0 = no link"),
    dict(rec="ttx_pop_link.default_obj", field="type", lo=0, hi=3, why="object type 1..3 selects the pointer table entry",
         filler=0xFF),
]


# One named writer each, with the argument the interval analysis cannot make (relational or
# cross-call); listed in the evidence under `assumptions`.
INV_EXCEPTIONS = {
    "RF-INV:caption.itv_count:itv_separator:++":
        "after `if (c == '<') itv_separator (vbi, cc, 0)` the count is 0 (the nested call takes the terminator branch: "
        "its event-mask test repeats the one this call already passed), otherwise the guard `itv_count > sizeof (itv_buf) - 2` "
        "has reset it: the increment stores at most 255",
}
# (caller, callee, parameter) -> fields the argument is computed from, assumed range, reason
ARG_ASSUME = {
    ("caption_command", "set_cursor", "row"): (
        frozenset(("row1", "roll")), (0, 14),
        "row1 + roll - 1 with row1 = max (0, row - roll + 1), row <= 14 from row_mapping[], roll <= 15: a relation between "
        "two fields (row1 + roll <= 15), outside an interval domain"),
}


def run(ctx, run):
    P = ctx.prog
    inv = fieldinv.Invariants(ctx, INVARIANTS, INV_EXCEPTIONS)
    if inv.missing:
        raise AnalysisBroken("declared invariant on a field that no longer exists: %s" % ", ".join(inv.missing))
    ctx.arg_assume.update(ARG_ASSUME)
    inv.install()
    n_w = inv.verify(run)
    for k, n in sorted(n_w.items()):
        run.note("invariant %s: %d direct writers checked" % (k, n))
    _subscripts(ctx, run)
    for k, (flds, iv, why) in ARG_ASSUME.items():
        if k in ctx.arg_assume_used:
            run.assumptions.append("argument `%s` of %s() at its call in %s() is in %s: %s" % (k[2], k[1], k[0], list(iv), why))
    for k in INV_EXCEPTIONS:
        if k not in inv.exceptions_used:
            run.note("exception %s no longer needed (the writer is proved or gone)" % k)


def _subscripts(ctx, run):
    P = ctx.prog
    n = 0
    for f in P.funcs:
        if f.unit not in UNITS:
            continue
        subs = ivl.subscripts(f)
        psubs = ivl.pointer_subscripts(f)
        if not subs and not psubs:
            continue
        run.touch(f)
        for node, cnt, base in subs:
            v = ivl.check_subscript(ctx, f, node, cnt, base)
            n += 1
            _record(ctx, run, f, node, cnt, v)
        for node, cnt, base, terms in psubs:
            v = ivl.check_ptr_subscript(ctx, f, node, cnt, base, terms)
            n += 1
            _record(ctx, run, f, node, cnt, v)
    run.floor("sized-array subscripts in the anchored units", n, 700)


def _record(ctx, run, f, node, cnt, v):
    desc = ex.pretty(f, node)
    key = "RF-IVL:%s:%s" % (f.name, canon(f, node))
    loc = ex.loc(f, node)
    if v.status == "holds":
        run.holds("RF-IVL", key, "%s: index in %s, %d elements" % (desc[:80], v.iv, cnt), loc,
                  nontrivial=v.iv is not None and v.iv[0] != v.iv[1])
        return
    run.violation("RF-IVL", key, "%s: index interval %s against %d elements: %s" % (desc[:90], v.iv, cnt, v.why), loc,
                  witness={"function": f.name, "subscript": desc, "index_interval": list(v.iv) if v.iv else None,
                           "elements": cnt, "derivation": v.why})


def canon(f, node):
    """Name-independent description of a subscript: array + index shape."""
    e = f.exprs[node]
    if e["k"] != "idx":
        return "ptr:" + ex.pretty(f, node)[:40]
    b = ex.skip(f, e["c"][0])
    be = f.exprs[b]
    while be["k"] == "cast":
        b = ex.skip(f, be["c"][0])
        be = f.exprs[b]
    arr = be.get("member") or be.get("name") or be["k"]
    if be["k"] == "idx":
        bb = f.exprs[ex.skip(f, be["c"][0])]
        while bb["k"] == "cast":
            bb = f.exprs[ex.skip(f, bb["c"][0])]
        arr = (bb.get("member") or bb.get("name") or "?") + "[]"
    o = atoms.Operand(f, e["c"][1])
    shape = "const%s" % o.const if o.const is not None else ("+".join(sorted(x.split(".")[-1] for x in o.fields)) or "local")
    j = ex.skip(f, e["c"][1])
    je = f.exprs[j]
    if je["k"] == "bin" and je["op"] in ("+", "-"):
        c = ex.const(f, je["c"][1])
        if c is not None:
            shape += "%s%d" % (je["op"], c)
    return "%s[%s]" % (arr, shape)
