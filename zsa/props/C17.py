"""C17 — search: callback/dispatcher code agreement, literal escaping covers
the regex metacharacters, re-anchoring on a direction change, the page walk
ends on its own."""
from .. import atoms, ex, flow, loops
from ..prog import AnalysisBroken

CLAUSE = ("(RF-TAB) the codes search_page_fwd and search_page_rev return are exactly the cases vbi_search_next dispatches on, the "
          "two siblings return the same set, and each tests its own end of the stop pair (fwd: stop_*[0], rev: stop_*[1]); every "
          "character the regex compiler treats specially outside an escape (ure.c: comparisons in _ure_compile_symbol, case labels "
          "in _ure_re2nfa) is in the escape set vbi_search_new uses for literal patterns; (RF-CORR) a direction change re-anchors "
          "all four stop fields; (RF-TERM) the page walk _vbi_cache_foreach_page is entered only with a non-empty *network* (the "
          "counter of the network whose page statistics it walks) and every wrap-around of the walk is preceded by a test that it "
          "has not wrapped before (so it ends even if the callback never stops it); The walk's page reference pairing is decided under C10.")
CLAUSE = CLAUSE + (" The 'whole page consumed' resume row that highlight() presets satisfies the test with which "
                   "search_page_fwd skips an already reported page (so a match that ends in the last searched cell does not make "
                   "the search return the same page forever); in _ure_sym_neq the element count that is compared is the one that "
                   "scales the memcmp of the ranges (two bracket classes are the same symbol only if all their ranges agree).")
CLAUSE = CLAUSE + (" cache_network_add_page updates the subpage range the page walk relies on so that the upper bound is "
                   "raised independently of whether the lower bound was (re)initialised; in _ure_add_range each range endpoint "
                   "is case-folded from itself.")
CLAUSE = CLAUSE + (" (RF-CMP) every comparison of the current position with the stop position is inclusive in the walk direction "
                   "(forward >=, backward <=).")
CLAUSE = CLAUSE + (" (RF-WIDTH) the subpage range the walk iterates over is stored in fields wide enough for every subcode.")
CLAUSE = CLAUSE + (" The DFA minimisation compares the acceptance of every pair of successor states it examines, inside the pair loop.")
CLAUSE = CLAUSE + (' The page walk enters a page at subno_max when walking backward and at subno_min when walking forward.')
CLAUSE = CLAUSE + (' highlight() stores the forward and the backward resume position on every path; the case of vbi_search_next() for a completed pass forgets the direction.')
CLAUSE = CLAUSE + (" In front of the walk loop a start subpage beyond the cached subpages of the start page is moved next to the "
                   "nearest one in the direction of travel (otherwise the first step leaves the start page and it is never searched).")
CLAUSE = CLAUSE + (" Inside the walk loop the subpage number only moves by one step of the walk direction or to the far end of the page entered.")
NOT_DECIDED = ("that exactly the matching pages are found, in order, each once (values); the regex engine's matching semantics; "
               "haystack construction.")

SEARCH, URE, CACHE = "src/search.c", "src/ure.c", "src/cache.c"
PUNCT = set(range(33, 48)) | set(range(58, 65)) | set(range(91, 97)) | set(range(123, 127))


def _ret_consts(f):
    res = set()
    for b, i in flow.all_events(f):
        e = f.exprs[i]
        if e["k"] == "ret" and e.get("c"):
            v = ex.const(f, e["c"][0])
            res.add(v)
    return res


def run(ctx, run):
    P = ctx.prog
    fwd = P.need("search_page_fwd", SEARCH)
    rev = P.need("search_page_rev", SEARCH)
    nxt = P.need("vbi_search_next", SEARCH)
    for f in (fwd, rev, nxt):
        run.touch(f)
    rf, rr = _ret_consts(fwd), _ret_consts(rev)
    if None in rf or None in rr:
        raise AnalysisBroken("search callbacks return non-constant values")
    sw = [bid for bid, b in nxt.blocks.items() if b.term and b.term["kind"] == "SwitchStmt"]
    if not sw:
        raise AnalysisBroken("vbi_search_next: dispatch switch not found")
    cases = set()
    for lo, hi in nxt.switch_cases(sw[0]):
        cases |= set(range(lo, hi + 1))
    # the callee of the switch is the page walk, which itself returns 0 for an empty network and -1 when it ends
    walk = P.need("_vbi_cache_foreach_page", CACHE)
    rw = {v for v in _ret_consts(walk) if v is not None}
    key = "RF-TAB:search:return-codes"
    produced = rf | rr | rw
    unknown = {v for v in produced if v not in cases and v != -3}
    if rf != rr:
        run.violation("RF-TAB", key, "search_page_fwd returns %s but search_page_rev returns %s: the two directions disagree on the "
                      "protocol with vbi_search_next" % (sorted(rf), sorted(rr)), "%s:%d" % (fwd.file, fwd.line))
    elif unknown:
        run.violation("RF-TAB", key, "code(s) %s can reach vbi_search_next, which has no case for them (they fall into VBI_SEARCH_ERROR)"
                      % sorted(unknown), "%s:%d" % (nxt.file, nxt.line))
    else:
        run.holds("RF-TAB", key, "callbacks return %s, the walk adds %s; vbi_search_next has cases %s (-3 = error by default)"
                  % (sorted(rf), sorted(rw - rf), sorted(cases)), "%s:%d" % (nxt.file, nxt.line))
    # sibling symmetry on the stop index
    for f, want in ((fwd, 0), (rev, 1)):
        idx = set()
        for n, e in enumerate(f.exprs):
            if e["k"] == "idx":
                b = f.exprs[ex.skip(f, e["c"][0])]
                if b["k"] == "mem" and b["member"] in ("stop_pgno", "stop_subno"):
                    idx.add(ex.const(f, e["c"][1]))
        key = "RF-TAB:%s:stop-index" % f.name
        if idx == {want}:
            run.holds("RF-TAB", key, "%s compares with stop_pgno[%d]/stop_subno[%d] only" % (f.name, want, want), "%s:%d" % (f.file, f.line))
        else:
            run.violation("RF-TAB", key, "%s uses stop index %s, expected only [%d]: the search stops against the other direction's "
                          "end" % (f.name, sorted(x for x in idx if x is not None), want), "%s:%d" % (f.file, f.line))

    _metachars(ctx, run)
    _turn(ctx, run, nxt)
    _walk(ctx, run, walk)
    _page_done_marker(ctx, run, fwd)
    _symbol_identity(ctx, run)
    _subno_bounds_independent(ctx, run)
    _casefold_endpoints(ctx, run)
    _restart_inside_failed_attempt(ctx, run)
    _stop_inclusive(ctx, run)
    _minimisation_keeps_acceptance(ctx, run)
    _enter_page_at_far_end(ctx, run, walk)
    _finished_pass_rearms(ctx, run, nxt, sw[0])
    _highlight_sets_both_resume_positions(ctx, run, P.need("highlight", SEARCH))
    _walk_starts_inside_start_page(ctx, run, walk)
    _walk_steps_every_subpage(ctx, run, walk)
    # the walk visits the subpage range the statistics recorded: the range must not be truncated (shared with C10)
    from . import C10
    C10._subno_range_fits(ctx, run)


def _walk_steps_every_subpage(ctx, run, f):
    """Inside the walk loop the subpage number moves by exactly one step of the walk direction, or is set to the far
    end of the page just entered.  Any other adjustment (skipping 'impossible' numbers, larger strides) passes over
    subpages that may be cached - hex-numbered pages use every subcode - and matches on them are never found."""
    run.touch(f)
    sub = f.params[3]["name"]
    dirp = f.params[4]["name"]
    in_loop = set()
    for h, body in loops.natural_loops(f).items():
        in_loop |= body
    n = 0
    for bid, i in flow.all_events(f):
        if bid not in in_loop:
            continue
        for lhs, var, op, rhs in flow.stores(f, i):
            if lhs is None:
                continue
            l = f.exprs[ex.skip(f, lhs)]
            if not (l["k"] == "ref" and l.get("name") == sub):
                continue
            n += 1
            ok = False
            if rhs is not None:
                r = f.exprs[ex.skip(f, rhs)]
                while r["k"] == "cast" and r.get("c"):
                    r = f.exprs[ex.skip(f, r["c"][0])]
                if op == "+=" and r["k"] == "ref" and r.get("name") == dirp:
                    ok = True
                elif op == "=" and r["k"] == "mem" and r["member"] in ("subno_min", "subno_max"):
                    ok = True
                elif op == "=" and r["k"] == "cond" and len(r.get("c", [])) == 3:
                    arms = [f.exprs[ex.skip(f, c_)] for c_ in r["c"][1:]]
                    ok = all(a_["k"] == "mem" and a_["member"] in ("subno_min", "subno_max") for a_ in arms)
                elif op == "=" and r["k"] == "bin" and r["op"] == "+":
                    names = {f.exprs[ex.skip(f, c)].get("name") for c in r["c"]}
                    ok = names == {sub, dirp}
            key = "RF-WHO:%s:subno-step@%d" % (f.name, n)
            if ok:
                run.holds("RF-WHO", key, "`%s` steps the subpage number by the walk direction or enters a page at its end" % ex.pretty(f, i)[:50], ex.loc(f, i))
            else:
                run.violation("RF-WHO", key, "inside the walk loop `%s` moves the subpage number by something other than one step of the "
                              "walk direction: cached subpages in between (every subcode is possible on hex-numbered pages) are never "
                              "visited, matches on them are not found" % ex.pretty(f, i)[:60], ex.loc(f, i),
                              witness={"function": f.name, "store": ex.pretty(f, i)})
    run.floor("stores to the subpage number inside the walk loop", n, 2)


def _walk_starts_inside_start_page(ctx, run, f):
    """The hole-skipping loop of the page walk leaves a page as soon as the subpage number is outside the page's
    subno_min .. subno_max.  The walk starts at a caller-chosen subpage that need not be cached (a backward search created at
    page P starts at (P-1).3F7E); unless that number is first brought next to the nearest cached subpage in the direction
    of travel, the very first step leaves the start page, and the stop test ends the pass before the walk comes back to
    it: the start page is never searched.  Rule: in front of the walk loop, for each direction, the start subpage is
    stored from the corresponding bound (subno_max walking backward, subno_min forward) - under a test of the start
    subpage against that bound, or as a clamp of its own value."""
    run.touch(f)
    sub = f.params[3]["name"]
    dirp = f.params[4]["name"]
    L = loops.natural_loops(f)
    in_loop = set()
    for h, body in L.items():
        in_loop |= body
    # the range tests that make the walk leave a page
    n_tests = 0
    for bid in in_loop:
        for lab in ("T", "F"):
            for a in atoms.edge_atoms(f, bid, lab):
                if a.R is None:
                    continue
                for x, y in ((a.L, a.R), (a.R, a.L)):
                    if x.locals == {sub} and not x.fields and any(m.endswith((".subno_max", ".subno_min")) for m in y.fields):
                        n_tests += 1
    run.floor("subpage range tests in the loop of the page walk", n_tests, 2)
    for want, back in (("subno_max", True), ("subno_min", False)):
        found = None
        for bid, i in flow.all_events(f):
            if bid in in_loop:
                continue
            for lhs, var, op, rhs in flow.stores(f, i):
                if lhs is None or rhs is None or op != "=":
                    continue
                l = f.exprs[ex.skip(f, lhs)]
                if not (l["k"] == "ref" and l.get("name") == sub):
                    continue
                o = atoms.Operand(f, rhs)
                if not any(m.endswith("." + want) for m in o.fields):
                    continue
                direction = guarded = False
                for a in atoms.atoms_at(f, i):
                    if a.R is None:
                        continue
                    if a.R.const == 0 and a.L.locals == {dirp} and not a.L.fields:
                        if (back and a.rel == "<") or (not back and a.rel in (">", ">=")):
                            direction = True
                    for x, y, rel in ((a.L, a.R, a.rel), (a.R, a.L, {"<": ">", ">": "<", "<=": ">=", ">=": "<="}.get(a.rel))):
                        if x.locals == {sub} and not x.fields and any(m.endswith("." + want) for m in y.fields):
                            if (back and rel in (">", ">=")) or (not back and rel in ("<", "<=")):
                                guarded = True
                if direction and (guarded or sub in o.locals):
                    found = i
        key = "RF-DOM:%s:start-inside-page-%s" % (f.name, "backward" if back else "forward")
        if found is not None:
            run.holds("RF-DOM", key, "walking %s, a start subpage beyond %s is moved next to it before the first step (`%s`)"
                      % ("backward" if back else "forward", want, ex.pretty(f, found)[:60]), ex.loc(f, found))
        else:
            run.violation("RF-DOM", key, "walking %s, the start subpage reaches the range test of the walk loop as the caller gave "
                          "it: when it lies %s the page's %s the first step leaves the start page and the pass ends before "
                          "coming back to it (a backward search created at page P never searches page P-1)"
                          % ("backward" if back else "forward", "above" if back else "below", want),
                          "%s:%d" % (f.file, f.line), witness={"function": f.name, "direction": "backward" if back else "forward"})


def _highlight_sets_both_resume_positions(ctx, run, f):
    """highlight() records where the next call resumes: row[0] / col[0] for a forward pass (behind the match), row[1] /
    col[1] for a backward pass (in front of it).  Both must be written on every path - a position left over from an
    earlier hit makes search_page_rev() rebuild a haystack that still contains the match just reported: the backward pass
    reports it again and again and never ends.  (The backward position used to be set only while walking the cells in
    front of the match, i.e. not at all for a match at the first cell of the page.)"""
    run.touch(f)
    missing = []
    for member in ("row", "col"):
        for k in (0, 1):
            st = set()
            for b, i in flow.all_events(f):
                for lhs, var, op, rhs in flow.stores(f, i):
                    if lhs is None:
                        continue
                    l = f.exprs[ex.skip(f, lhs)]
                    if l["k"] == "idx" and ex.const(f, l["c"][1]) == k:
                        base = f.exprs[ex.skip(f, l["c"][0])]
                        while base["k"] == "cast":
                            base = f.exprs[ex.skip(f, base["c"][0])]
                        if base["k"] == "mem" and base["member"] == member and base.get("in") == "vbi_search":
                            st.add(b)
            if not st:
                raise AnalysisBroken("highlight: no store of %s[%d]" % (member, k))
            if f.exit in flow.reach_from(f, f.entry, avoid=st):
                missing.append("%s[%d]" % (member, k))
    key = "RF-INIT:highlight:resume-positions"
    if missing:
        run.violation("RF-INIT", key, "highlight() has a path that does not store s->%s: the backward (index 1) resume position "
                      "keeps the value of an earlier hit when the match starts at the first cell of the page, search_page_rev() "
                      "finds the same match again and the backward pass never ends" % ", s->".join(missing),
                      "%s:%d" % (f.file, f.line), witness={"not_stored_on_every_path": missing})
    else:
        run.holds("RF-INIT", key, "every path through highlight() stores row[0], col[0], row[1] and col[1]", "%s:%d" % (f.file, f.line))


def _finished_pass_rearms(ctx, run, f, sw):
    """When the page walk reports that the pass is complete (-1) vbi_search_next() answers NOT_FOUND and forgets the
    direction (search->dir = 0), which is what makes the next call start a fresh pass from the start page.  Every path
    from the case for -1 to the function's exit stores 0 into search->dir."""
    tgt = [s for s, lab in f.edges(sw) if isinstance(lab, tuple) and lab[1] <= -1 <= lab[2]]
    if not tgt:
        raise AnalysisBroken("vbi_search_next: no case for the walk result -1")
    clears = {b for b, i in flow.all_events(f) if atoms.store_to_field("vbi_search.dir", 0)(f, i)}
    key = "RF-CORR:vbi_search_next:finished-pass-rearms"
    bad = False
    for t in tgt:
        if f.exit in flow.reach_from(f, t, avoid=clears):
            bad = True
    if bad:
        run.violation("RF-CORR", key, "the case for a completed pass (-1) reaches the exit without `search->dir = 0`: the next call "
                      "does not start a new pass - further passes in the same direction find nothing and a pass in the other "
                      "direction starts from the wrong page", "%s:%d" % (f.file, f.blocks[sw].term.get("line", f.line)),
                      witness={"function": f.name})
    else:
        run.holds("RF-CORR", key, "every path from the case for -1 stores search->dir = 0 before returning", "%s:%d" % (f.file, f.line))


def _enter_page_at_far_end(ctx, run, f):
    """The page walk visits the subpages of a page in the direction of the walk: stepping to the previous page it
    enters that page at its highest subpage (subno_max), stepping to the next page at its lowest (subno_min).  Entering
    at the wrong end skips all other subpages of every page in that direction."""
    run.touch(f)
    dirp = None
    for p in f.params:
        if "it" in p and p["it"][1] and p["name"] not in ("pgno", "subno"):
            dirp = p["name"]
    n = 0
    for bid, i in flow.all_events(f):
        for lhs, var, op, rhs in flow.stores(f, i):
            if lhs is None or rhs is None or op != "=":
                continue
            r = f.exprs[ex.skip(f, rhs)]
            while r["k"] == "cast":
                r = f.exprs[ex.skip(f, r["c"][0])]
            if r["k"] == "cond" and len(r.get("c", [])) == 3:
                # `subno = backwards ? ps->subno_max : ps->subno_min`: both directions in one statement
                arms = []
                for c_ in r["c"][1:]:
                    ae = f.exprs[ex.skip(f, c_)]
                    while ae["k"] == "cast":
                        ae = f.exprs[ex.skip(f, ae["c"][0])]
                    arms.append(ae["member"] if ae["k"] == "mem" and ae["member"] in ("subno_min", "subno_max") else None)
                pol = None
                for a in atoms.atoms_of(f, r["c"][0], True, bid, None):
                    if a.R is not None and a.R.const == 0 and a.L.locals and not a.L.fields and (dirp is None or dirp in a.L.locals):
                        pol = "back" if a.rel == "<" else ("fwd" if a.rel in (">", ">=") else pol)
                if None not in arms and pol is not None:
                    n += 2
                    want_true = "subno_max" if pol == "back" else "subno_min"
                    key = "RF-TAB:%s:enter-page-both-directions" % f.name
                    if arms[0] == want_true and arms[1] != want_true:
                        run.holds("RF-TAB", key, "`%s` enters a page at subno_max walking backward and at subno_min walking forward"
                                  % ex.pretty(f, i)[:60], ex.loc(f, i))
                    else:
                        run.violation("RF-TAB", key, "`%s` enters the page at the near end in the walk direction: only one subpage of "
                                      "every page is visited, matches on the others are never found" % ex.pretty(f, i)[:60],
                                      ex.loc(f, i), witness={"function": f.name})
                continue
            if not (r["k"] == "mem" and r["member"] in ("subno_min", "subno_max")):
                continue
            back = fwd = False
            for a in atoms.atoms_at(f, i):
                if a.R is None or a.R.const != 0 or not a.L.locals or a.L.fields:
                    continue
                if dirp is not None and dirp not in a.L.locals:
                    continue
                if a.rel == "<":
                    back = True
                elif a.rel in (">=", ">"):
                    fwd = True
            if back == fwd:
                continue
            n += 1
            want = "subno_max" if back else "subno_min"
            key = "RF-TAB:%s:enter-page-%s" % (f.name, "backward" if back else "forward")
            if r["member"] == want:
                run.holds("RF-TAB", key, "walking %s a page is entered at %s" % ("backward" if back else "forward", want), ex.loc(f, i))
            else:
                run.violation("RF-TAB", key, "walking %s `%s` enters the page at %s: only that one subpage of every page is "
                              "visited in this direction, matches on the others are never found"
                              % ("backward" if back else "forward", ex.pretty(f, i), r["member"]), ex.loc(f, i),
                              witness={"function": f.name, "direction": "backward" if back else "forward"})
    run.floor("page entries of the walk by direction", n, 2)


def _metachars(ctx, run):
    P = ctx.prog
    new = P.need("vbi_search_new", SEARCH)
    run.touch(new)
    esc = None
    for b, i in flow.all_events(new):
        e = new.exprs[i]
        if e["k"] == "call" and e.get("callee") in ("strchr", "__builtin_strchr"):
            a = new.exprs[ex.skip(new, e["c"][0])]
            while a["k"] == "cast":
                a = new.exprs[ex.skip(new, a["c"][0])]
            if a["k"] == "str":
                esc = set(ord(c) for c in a.get("s", ""))
    if esc is None:
        raise AnalysisBroken("vbi_search_new: escape set (strchr on a string literal) not found")
    meta = set()
    sym = P.need("_ure_compile_symbol", URE)
    nfa = P.need("_ure_re2nfa", URE)
    run.touch(sym)
    run.touch(nfa)
    # comparisons of the current symbol with punctuation, outside the escape branch
    for bid, b in sym.blocks.items():
        t = b.term
        if not t or "cond" not in t:
            continue
        for s, lab in sym.edges(bid):
            for a in atoms.edge_atoms(sym, bid, lab):
                if a.rel == "==" and a.R is not None and a.R.const in PUNCT and not a.L.fields:
                    meta.add(a.R.const)
    for bid, b in nfa.blocks.items():
        t = b.term
        if t and t["kind"] == "SwitchStmt":
            for lo, hi in nfa.switch_cases(bid):
                for v in range(lo, hi + 1):
                    if v in PUNCT:
                        meta.add(v)
    if len(meta) < 8:
        raise AnalysisBroken("only %d regex metacharacters found in ure.c" % len(meta))
    missing = meta - esc
    key = "RF-TAB:search:escape-set-covers-metacharacters"
    if missing:
        run.violation("RF-TAB", key, "the regex compiler treats %s specially but vbi_search_new does not escape %s in a literal pattern: "
                      "a literal search for text containing it matches other pages (or fails to compile)"
                      % ("".join(chr(c) for c in sorted(meta)), "".join(chr(c) for c in sorted(missing))), "%s:%d" % (new.file, new.line),
                      witness={"metacharacters": "".join(chr(c) for c in sorted(meta)), "escaped": "".join(chr(c) for c in sorted(esc))})
    else:
        run.holds("RF-TAB", key, "metacharacters `%s` are all in the escape set `%s`" % ("".join(chr(c) for c in sorted(meta)),
                                                                                        "".join(chr(c) for c in sorted(esc))),
                  "%s:%d" % (new.file, new.line))


def _turn(ctx, run, f):
    # the branch dir != search->dir
    edge = None
    for bid, b in f.blocks.items():
        t = b.term
        if not t or "cond" not in t:
            continue
        for s, lab in f.edges(bid):
            for a in atoms.edge_atoms(f, bid, lab):
                if a.rel == "!=" and a.R is not None and (a.L.has("vbi_search.dir") or a.R.has("vbi_search.dir")) and a.R.const is None:
                    edge = (bid, lab)
    if edge is None:
        raise AnalysisBroken("vbi_search_next: direction change branch not found")
    region = set()
    for b in f.blocks:
        for s2, l2, c2 in flow.dominating_edges(f, b):
            if (s2, l2) == edge:
                region.add(b)
    got = set()
    for b in region:
        for i in flow.events(f, b):
            for lhs, var, op, rhs in flow.stores(f, i):
                if lhs is None:
                    continue
                l = f.exprs[ex.skip(f, lhs)]
                if l["k"] == "idx":
                    m = f.exprs[ex.skip(f, l["c"][0])]
                    if m["k"] == "mem" and m["member"] in ("stop_pgno", "stop_subno"):
                        got.add((m["member"], ex.const(f, l["c"][1])))
    want = {("stop_pgno", 0), ("stop_subno", 0), ("stop_pgno", 1), ("stop_subno", 1)}
    key = "RF-CORR:vbi_search_next:turn-reanchors-stops"
    if want <= got:
        run.holds("RF-CORR", key, "on a direction change stop_pgno[0..1] and stop_subno[0..1] are all set from the current position",
                  "%s:%d" % (f.file, f.blocks[edge[0]].term["line"]))
    else:
        run.violation("RF-CORR", key, "a direction change does not re-anchor %s: the new pass stops against the stop page computed when "
                      "the search was created and ends early (or late)" % ", ".join("%s[%d]" % x for x in sorted(want - got)),
                      "%s:%d" % (f.file, f.blocks[edge[0]].term["line"]), witness={"missing": sorted(want - got)})


def _walk(ctx, run, f):
    run.touch(f)
    L = loops.natural_loops(f)
    if not L:
        raise AnalysisBroken("_vbi_cache_foreach_page: walk loop not found")
    head = max(L, key=lambda h: len(L[h]))
    cn = f.params[1]["name"]
    ats = atoms.dominating_atoms(f, head)
    ok = False
    for a in ats:
        if a.rel == "!=" and a.R is not None and a.R.const == 0 and a.L.has("cache_network.n_cached_pages"):
            r = ex.root(f, a.L.node)
            if r is not None and f.exprs[r].get("name") == cn:
                ok = True
    key = "RF-TERM:_vbi_cache_foreach_page:non-empty-network"
    if ok:
        run.holds("RF-TERM", key, "the walk is entered only with %s->n_cached_pages != 0 (the network whose page statistics it scans)" % cn,
                  "%s:%d" % (f.file, f.line))
    else:
        run.violation("RF-TERM", key, "the walk over the page statistics of network `%s` is not guarded by that network's own "
                      "n_cached_pages != 0: with an empty current network (other networks still cached) the inner scan for a page "
                      "with subpages never ends" % cn, "%s:%d" % (f.file, f.line),
                      witness={"dominating": [repr(a) for a in ats]})
    # every wrap-around is preceded by `wrapped == 0`
    wraps = [(b, i) for b, i in flow.all_events(f) for lhs, var, op, rhs in flow.stores(f, i)
             if lhs is not None and f.exprs[ex.skip(f, lhs)]["k"] == "ref" and rhs is not None and ex.const(f, rhs) == 1
             and loops.innermost(f, b) is not None and f.exprs[ex.skip(f, lhs)].get("t") in ("int", "vbi_bool")
             and _is_flag(f, f.exprs[ex.skip(f, lhs)]["name"]) and not f.exprs[i].get("inl_ret")]
    # (a helper that reports "go on" through its result leaves `result = TRUE` behind when it is inlined: not a wrap flag)
    run.floor("wrap-around sites in the page walk", len(wraps), 1)
    for b, i in wraps:
        name = f.exprs[ex.skip(f, flow.stores(f, i)[0][0])]["name"]
        ok = any(a.rel == "==" and a.R is not None and a.R.const == 0 and name in a.L.locals and not a.L.fields for a in atoms.atoms_at(f, i))
        key = "RF-TERM:_vbi_cache_foreach_page:single-wrap@%d" % (1 + [x[1] for x in wraps].index(i))
        if ok:
            run.holds("RF-TERM", key, "`%s = TRUE` is dominated by `%s == 0` (a second wrap-around leaves the walk)" % (name, name), ex.loc(f, i))
        else:
            run.violation("RF-TERM", key, "the page walk can wrap around any number of times: it ends only when the callback says so, "
                          "and the callbacks stop only at a page at or beyond their stop page - if no such page is cached "
                          "vbi_search_next never returns", ex.loc(f, i), witness={"function": f.name})


def _is_flag(f, name):
    """A local that is only ever assigned 0 / 1."""
    for b, i in flow.all_events(f):
        for lhs, var, op, rhs in flow.stores(f, i):
            nm = var["name"] if var is not None else (f.exprs[ex.skip(f, lhs)].get("name") if lhs is not None and f.exprs[ex.skip(f, lhs)]["k"] == "ref" else None)
            if nm == name and (rhs is None or ex.const(f, rhs) not in (0, 1)):
                return False
    return True


def _page_done_marker(ctx, run, fwd):
    P = ctx.prog
    hl = P.need("highlight", SEARCH)
    run.touch(hl)
    # constants stored to s->row[0] in highlight ()
    presets = []
    for bid, i in flow.all_events(hl):
        e = hl.exprs[i]
        if e["k"] == "asg" and e["op"] == "=":
            l = hl.exprs[ex.skip(hl, e["c"][0])]
            if l["k"] == "idx" and ex.const(hl, l["c"][1]) == 0:
                b = hl.exprs[ex.skip(hl, l["c"][0])]
                while b["k"] == "cast":
                    b = hl.exprs[ex.skip(hl, b["c"][0])]
                if b.get("member") == "row":
                    c = ex.const(hl, e["c"][1])
                    if c is not None:
                        presets.append((i, c))
    # the skip test of the forward search: `row > C` leading to `return 0`
    skip = None
    for bid, b in fwd.blocks.items():
        t = b.term
        if not t or "cond" not in t:
            continue
        c = fwd.exprs[ex.skip(fwd, t["cond"])]
        if c["k"] == "bin" and c["op"] in (">", ">="):
            l = fwd.exprs[ex.skip(fwd, c["c"][0])]
            while l["k"] == "cast":
                l = fwd.exprs[ex.skip(fwd, l["c"][0])]
            k = ex.const(fwd, c["c"][1])
            if l["k"] == "ref" and l.get("name") == "row" and k is not None:
                skip = (c["op"], k)
    if not presets or skip is None:
        raise AnalysisBroken("search: resume-row preset (%s) or skip test (%s) not found" % (presets, skip))
    key = "RF-TAB:search:page-done-marker"
    for i, c in presets:
        ok = c > skip[1] if skip[0] == ">" else c >= skip[1]
        if ok:
            run.holds("RF-TAB", key, "highlight () presets row[0] = %d, which satisfies search_page_fwd's skip test `row %s %d`"
                      % (c, skip[0], skip[1]), ex.loc(hl, i))
        else:
            run.violation("RF-TAB", key, "highlight () presets the resume row to %d for a match that ends in the last searched cell, but "
                          "search_page_fwd skips a reported page only when `row %s %d`: the page is searched again from the top "
                          "and returned forever" % (c, skip[0], skip[1]), ex.loc(hl, i), witness={"preset": c, "skip_test": list(skip)})


def _symbol_identity(ctx, run):
    from .. import atoms
    P = ctx.prog
    f = P.need("_ure_sym_neq", "src/ure.c")
    run.touch(f)
    n = 0
    for bid, i in flow.all_events(f):
        e = f.exprs[i]
        if e["k"] == "call" and e.get("callee") == "memcmp" and len(e["c"]) >= 3:
            n += 1
            length_fields = {x.split(".")[-1] for x in atoms.Operand(f, e["c"][2]).fields}
            cmp_fields = set()
            for a in atoms.atoms_at(f, i):
                if a.rel == "==" and a.R is not None and a.L.fields and a.R.fields:
                    lf = {x.split(".")[-1] for x in a.L.fields}
                    rf = {x.split(".")[-1] for x in a.R.fields}
                    if lf == rf:
                        cmp_fields |= lf
            key = "RF-DEP:_ure_sym_neq:count-compared-is-count-used"
            if length_fields and length_fields <= cmp_fields:
                run.holds("RF-DEP", key, "the memcmp length scales with %s, and equality of exactly that field on both symbols "
                          "dominates the call" % sorted(length_fields), ex.loc(f, i))
            else:
                run.violation("RF-DEP", key, "the ranges are compared over %s elements but the equality test before it is on %s: two "
                              "classes with a different number of ranges (one a leading sub-list of the other) are taken for the "
                              "same symbol, so `[0-9a-f][a-f]` compiles as `[0-9a-f][0-9a-f]`"
                              % (sorted(length_fields), sorted(cmp_fields) or "other fields"), ex.loc(f, i),
                              witness={"length": sorted(length_fields), "compared": sorted(cmp_fields)})
    run.floor("memcmp of class ranges in _ure_sym_neq", n, 1)


def _subno_bounds_independent(ctx, run):
    f = ctx.prog.need("cache_network_add_page", CACHE)
    run.touch(f)
    n = 0
    for bid, i in flow.all_events(f):
        e = f.exprs[i]
        if e["k"] == "asg" and e["op"] == "=" and ex.pretty(f, e["c"][0]).endswith("subno_max"):
            n += 1
            ats = atoms.atoms_at(f, i)
            dep = [a for a in ats if any(x.endswith(".subno_min") for x in (a.L.fields | (a.R.fields if a.R is not None else set())))]
            key = "RF-DOM:cache_network_add_page:subno_max-independent"
            if dep:
                run.violation("RF-DOM", key, "the update of subno_max is reached only when the subno_min update was *not* taken (%s): "
                              "a page whose first (or lowest) subpage is non-zero keeps subno_max == 0 < subno_min, and the page "
                              "walk of the search skips all its subpages" % "; ".join(repr(a) for a in dep), ex.loc(f, i),
                              witness={"dominating": [repr(a) for a in ats]})
            else:
                run.holds("RF-DOM", key, "subno_max is raised independently of the subno_min update", ex.loc(f, i))
    run.floor("subno_max updates in cache_network_add_page", n, 1)


def _casefold_endpoints(ctx, run):
    f = ctx.prog.need("_ure_add_range", "src/ure.c")
    run.touch(f)
    n = 0
    for bid, i in flow.all_events(f):
        e = f.exprs[i]
        if e["k"] != "asg" or e["op"] != "=":
            continue
        l = f.exprs[ex.skip(f, e["c"][0])]
        r = f.exprs[ex.skip(f, e["c"][1])]
        while r["k"] == "cast":
            r = f.exprs[ex.skip(f, r["c"][0])]
        if l["k"] == "mem" and l["member"] in ("min_code", "max_code") and r["k"] == "call" and "lower" in (r.get("callee") or ""):
            n += 1
            src = {x.split(".")[-1] for x in atoms.Operand(f, e["c"][1]).fields}
            key = "RF-DEP:_ure_add_range:casefold-%s" % l["member"]
            if src == {l["member"]}:
                run.holds("RF-DEP", key, "%s is folded from itself" % l["member"], ex.loc(f, i))
            else:
                run.violation("RF-DEP", key, "r->%s is case-folded from %s: under case folding a range [a-e] collapses to its first "
                              "character and pages that match only through the rest of the range are not found"
                              % (l["member"], sorted(src)), ex.loc(f, i), witness={"source": sorted(src)})
    run.floor("case-folded range endpoints", n, 2)


def _restart_inside_failed_attempt(ctx, run):
    """ure_exec has no `.*` prefix in its automaton: when a partial match fails it must resume the scan
    one character after the *beginning* of the failed attempt (ms + 1), or a match that starts
    inside it is missed ("ab" in "aab")."""
    f = ctx.prog.need("ure_exec", "src/ure.c")
    run.touch(f)
    n = 0
    for bid, i in flow.all_events(f):
        e = f.exprs[i]
        if not (e["k"] == "asg" and e["op"] == "=" and f.exprs[ex.skip(f, e["c"][0])].get("name") == "stp"
                and ex.pretty(f, e["c"][1]).replace("(", "").replace(")", "").endswith("dfa->states")):
            continue
        if loops.innermost(f, bid) is None:
            continue            # the initialisation before the loop
        n += 1
        ok = False
        for b2, j in flow.all_events(f):
            e2 = f.exprs[j]
            if e2["k"] == "asg" and e2["op"] == "=" and f.exprs[ex.skip(f, e2["c"][0])].get("name") == "sp" \
                    and "ms" in atoms.Operand(f, e2["c"][1]).locals:
                # on the way to the reset: its block reaches the reset's block without leaving the failing branch
                if b2 == bid or (bid in flow.reach_from(f, b2) and flow.dominates(f, flow.elem_pos(f)[j][0], bid) or
                                 any(s == bid for s, _ in f.edges(b2))):
                    ok = True
        key = "RF-DEP:ure_exec:restart-after-failed-attempt"
        if ok:
            run.holds("RF-DEP", key, "the reset after a failed partial match moves the scan pointer back to ms + 1", ex.loc(f, i))
        else:
            run.violation("RF-DEP", key, "after a failed partial match the automaton is reset but the scan goes on behind the character "
                          "that failed: a match beginning inside the failed attempt is missed (\"ab\" in \"aab\", \"needle\" in "
                          "\"neneedle\") - pages that contain the text are not found", ex.loc(f, i))
    run.floor("automaton resets inside the matching loop of ure_exec", n, 1)


def _stop_inclusive(ctx, run):
    """RF-CMP: a pass ends when the walk arrives at the stop position *itself* - the page the
    pass started on has been searched when the pass began.  Every comparison of the current
    position with `stop` in the two callbacks is therefore inclusive in the walk direction
    (forward `this >= stop`, backward `this <= stop`); an exclusive test lets the walk pass the
    stop page, search it a second time and start another lap: the pass never reports
    not-found."""
    P = ctx.prog
    for name, want in (("search_page_fwd", ">="), ("search_page_rev", "<=")):
        f = P.need(name, SEARCH)
        run.touch(f)
        n = 0
        bad = []
        parent = {}
        for pi, pe_ in enumerate(f.exprs):
            for c_ in pe_.get("c") or []:
                if c_ is not None and c_ >= 0:
                    parent.setdefault(c_, pi)
        for i, e in enumerate(f.exprs):
            if e["k"] != "bin" or e["op"] not in ("<", "<=", ">", ">=", "==", "!="):
                continue
            a, b = [f.exprs[ex.skip(f, c)] for c in e["c"]]
            while a["k"] == "cast":
                a = f.exprs[ex.skip(f, a["c"][0])]
            while b["k"] == "cast":
                b = f.exprs[ex.skip(f, b["c"][0])]
            # one side is the local `stop`; the other is the current position - a local, or (after a temporary was
            # introduced or removed) the expression that computes it - but not `start`
            names = (a.get("name") if a["k"] == "ref" else None, b.get("name") if b["k"] == "ref" else None)
            if "stop" not in names or "start" in names:
                continue
            other = e["c"][1] if names[0] == "stop" else e["c"][0]
            if "start" in atoms.Operand(f, other).locals or ex.const(f, other) is not None:
                continue
            op = e["op"]
            if names[0] == "stop":
                op = {"<": ">", "<=": ">=", ">": "<", ">=": "<=", "==": "==", "!=": "!="}[op]
            # under an odd number of negations (`return !(here >= start && here < stop)`) the test reads the other way
            j, neg, hops = i, False, 0
            while j in parent and hops < 30:
                j = parent[j]
                hops += 1
                pe = f.exprs[j]
                if pe["k"] == "un" and pe["op"] == "!":
                    neg = not neg
                elif pe["k"] == "bin" and pe["op"] == "==" and any(ex.const(f, c) == 0 for c in pe["c"]):
                    neg = not neg
                elif pe["k"] not in ("cast", "paren", "bin", "un", "cond") or (pe["k"] == "bin" and pe["op"] not in ("&&", "||", "!=", "==")):
                    break
            if neg:
                op = {"<": ">=", "<=": ">", ">": "<=", ">=": "<", "==": "!=", "!=": "=="}[op]
            n += 1
            if op != want:
                bad.append((i, op))
        if n < 2:
            raise AnalysisBroken("%s: stop comparisons not found (%d)" % (name, n))
        key = "RF-CMP:%s:stop-inclusive" % name
        if bad:
            i, op = bad[0]
            run.violation("RF-CMP", key, "%s() tests the current position against the stop position with `%s` (%s), not `%s`: the "
                          "walk passes the stop page, searches it again and begins another lap - the pass never reports "
                          "not-found" % (name, op, ex.pretty(f, i)[:30], want), ex.loc(f, i))
        else:
            run.holds("RF-CMP", key, "%d comparisons with the stop position, all `%s`" % (n, want), "%s:%d" % (f.file, f.line))


def _minimisation_keeps_acceptance(ctx, run):
    """RF-CORR: _ure_merge_equiv() merges DFA states it proves equivalent by walking pairs of
    successor states.  Two states are equivalent only if *every* pair reached has the same
    acceptance; the test `ls->accepting != rs->accepting` therefore sits inside the loop over the
    pair list, on the pair being examined (both sides read through the pair's own state
    pointers).  Tested for the first pair only, an accepting and a non-accepting successor are
    merged and patterns like `yaa+` stop matching."""
    from .. import loops
    P = ctx.prog
    f = P.need("_ure_merge_equiv", URE)
    run.touch(f)
    L = loops.natural_loops(f)
    if len(L) < 3:
        raise AnalysisBroken("_ure_merge_equiv: loop nest not found")
    # the innermost loops; the pair loop is the one whose body compares trans_used of two states
    found = False
    where = None
    for h, body in L.items():
        cmp_trans = cmp_acc = False
        for b in body:
            t = f.blocks[b].term
            if not t or "cond" not in t:
                continue
            for j in ex.walk(f, t["cond"]):
                e = f.exprs[j]
                if e["k"] == "bin" and e["op"] in ("!=", "=="):
                    sides = [f.exprs[ex.skip(f, c)] for c in e["c"]]
                    sides = [s if s["k"] != "cast" else f.exprs[ex.skip(f, s["c"][0])] for s in sides]
                    if all(s["k"] == "mem" for s in sides):
                        roots = [f.exprs[ex.root(f, ex.skip(f, c))].get("name") if ex.root(f, ex.skip(f, c)) is not None else None for c in e["c"]]
                        if sides[0]["member"] == sides[1]["member"] == "trans_used" and roots[0] != roots[1]:
                            cmp_trans = True
                            where = (h, roots)
                        if sides[0]["member"] == sides[1]["member"] == "accepting" and roots[0] != roots[1]:
                            if where is None or set(roots) == set(where[1]) or True:
                                cmp_acc = (cmp_acc or set(), roots)[1] and True
                                acc_roots = roots
        if cmp_trans:
            # smallest loop containing the trans_used comparison is the pair loop
            if where and (not found or len(body) < found[0]):
                found = (len(body), cmp_acc, h, where[1], locals().get("acc_roots"))
    key = "RF-CORR:_ure_merge_equiv:acceptance-per-pair"
    if not found:
        raise AnalysisBroken("_ure_merge_equiv: the pair loop (comparison of trans_used) was not found")
    size, has_acc, h, troots, aroots = found
    if has_acc and aroots is not None and set(aroots) == set(troots):
        run.holds("RF-CORR", key, "inside the pair loop: %s->accepting != %s->accepting next to the trans_used comparison" % tuple(troots),
                  "%s:%d" % (f.file, f.line))
    else:
        run.violation("RF-CORR", key, "the loop over the pairs of successor states compares their number of transitions but not their "
                      "acceptance (`%s->accepting != %s->accepting` is missing there): an accepting and a non-accepting state "
                      "reached from the two candidates are taken for equivalent and merged - the minimised automaton no longer "
                      "accepts the language of the pattern" % tuple(troots), "%s:%d" % (f.file, f.line))
