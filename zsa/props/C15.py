"""C15 — IDL format A and PFC demultiplexers."""
from .. import atoms, ex, flow, ivl, neg, summaries
from ..prog import AnalysisBroken

CLAUSE = ("IDL-A / PFC demultiplexers: (RF-DEP) the flags handed to the IDL callback are the flags accumulated before "
          "VBI_IDL_DATA_LOST is cleared; (RF-INIT) every field of the demux context that the feed path reads is written by the "
          "constructor path (the objects come from vbi_malloc); (RF-DOM) the IDL callback is dominated by crc == 0 and the Hamming "
          "tests of IAL/SPA, the PFC callback by a decoded structure header; (RF-NEG) no Hamming result reaches demux state or a "
          "left shift before it is tested, a sum of two results is not accepted as a test of its operands, and no decoded byte is "
          "discarded unexamined; (RF-IVL) every subscript of the 42-byte packet, the 40-byte IDL buffer and the 2048-byte PFC "
          "block buffer is in bounds under the function's own guards and loop bounds; (RF-CORR) the IDL dummy-byte detector "
          "updates its previous-byte tracker on every path where the byte differs; (RF-PURE) no state outside the context "
          "object except the once-initialised CRC table.")
CLAUSE = CLAUSE + (' (RF-CORR) a path of idl_a_demux_feed that switches the continuity comparison off (ci := -1) records VBI_IDL_DATA_LOST; a PFC page header keeps the block in progress only under packet > n_packets.')
NOT_DECIDED = "that the delivered bytes equal the sent ones, in order; dummy-byte semantics beyond the tracker update; CRC arithmetic."

IDL, PFC = "src/idl_demux.c", "src/pfc_demux.c"


def run(ctx, run):
    P = ctx.prog
    fa = P.need("idl_a_demux_feed", IDL)
    run.touch(fa)

    # ---- RF-DEP: flags delivered = flags accumulated before the clear ----------
    _flags_dep(ctx, run, fa)
    _blind_spot_flagged(ctx, run, fa)

    # ---- RF-INIT ------------------------------------------------------------------
    _init(ctx, run, "_vbi_idl_demux", ["vbi_idl_demux_feed", "idl_a_demux_feed"], ["_vbi_idl_demux_init"], IDL)
    _init(ctx, run, "_vbi_pfc_demux", ["vbi_pfc_demux_feed", "_vbi_pfc_demux_decode"], ["_vbi_pfc_demux_init"], PFC)

    # ---- RF-DOM: delivery gates ------------------------------------------------------
    cb = _indirect_calls(fa, "callback")
    run.floor("IDL callback sites", len(cb), 1)
    for i in cb:
        ats = atoms.atoms_at(fa, i)
        need = [("CRC over the packet is zero", lambda a: a.rel == "==" and a.R is not None and a.R.const == 0
                 and _local_fed_by_table(fa, a.L, "idl_a_crc_table")),
                ("IAL Hamming result >= 0", lambda a: a.call_cmp("vbi_unham8", ">=", 0) or _ge0_of_call_local(fa, a, "vbi_unham8")),
                ("address matches the context's", lambda a: a.eq_field("_vbi_idl_demux.address"))]
        _need(run, fa, i, "RF-DOM:idl_a_demux_feed:callback", "IDL delivery", need, ats)
    fd = P.need("_vbi_pfc_demux_decode", PFC)
    run.touch(fd)
    cb = _indirect_calls(fd, "callback")
    run.floor("PFC callback sites", len(cb), 1)
    for i in cb:
        ats = atoms.atoms_at(fd, i)
        need = [("structure header already decoded (application_id >= 0)",
                 lambda a: a.rel == ">=" and a.R is not None and a.R.const == 0 and a.L.has("vbi_pfc_block.application_id")),
                ("block complete (left == 0)", lambda a: a.cmp_const("<=", "_vbi_pfc_demux.left", 0) or a.cmp_const("==", "_vbi_pfc_demux.left", 0))]
        _need(run, fd, i, "RF-DOM:_vbi_pfc_demux_decode:callback", "PFC delivery", need, ats)

    _pfc_scan_reaches_packet_end(ctx, run, fd)

    # ---- RF-NEG ------------------------------------------------------------------------
    n_src = 0
    for fn, unit in (("idl_a_demux_feed", IDL), ("vbi_idl_demux_feed", IDL), ("_vbi_pfc_demux_decode", PFC), ("vbi_pfc_demux_feed", PFC)):
        f = P.need(fn, unit)
        run.touch(f)
        a = neg.Neg(ctx, f).run()
        n_src += a.n_sources
        for eid, lhs, t in a.persistent_stores():
            key = "RF-NEG:%s:store:%s" % (fn, _fieldname(f, lhs))
            if t:
                run.violation("RF-NEG", key, "`%s` stores a value depending on an unchecked Hamming result into the demux state: %s"
                              % (ex.pretty(f, eid)[:80], a.describe(t)), ex.loc(f, eid),
                              witness={"function": fn, "store": ex.pretty(f, eid), "sources": a.describe(t)})
            else:
                run.holds("RF-NEG", key, "no unchecked Hamming result reaches `%s`" % ex.pretty(f, eid)[:60], ex.loc(f, eid),
                          nontrivial=False)
        for node, t in neg.shift_sinks(a):
            key = "RF-NEG:%s:shift" % fn
            run.violation("RF-NEG", key, "`%s` left-shifts a Hamming result that may be -1 (undefined behaviour in ISO C, "
                          "UBSan: left shift of negative value): %s" % (ex.pretty(f, node)[:70], a.describe(t)), ex.loc(f, node),
                          witness={"function": fn, "expr": ex.pretty(f, node)})
        for eid, name in neg.unexamined(a):
            key = "RF-NEG:%s:unexamined:%s" % (fn, ex.pretty(f, eid).split("(")[0].strip()[:30])
            run.violation("RF-NEG", key, "the value decoded by `%s` can reach the end of the function (or its next "
                          "assignment) without ever being examined: a decoded byte is silently dropped" % ex.pretty(f, eid)[:70],
                          ex.loc(f, eid), witness={"function": fn, "variable": name})
        run.holds("RF-NEG", "RF-NEG:%s:examined" % fn, "%d decode call site(s); every assigned result is read on every path"
                  % a.n_sources, "%s:%d" % (f.file, f.line)) if not list(neg.unexamined(a)) else None
    run.floor("Hamming decode call sites in the IDL/PFC feed paths", n_src, 10)
    _channel_filter(ctx, run, P.need("vbi_idl_demux_feed", IDL))
    _ci_range(ctx, run)
    _page_complete_at_header(ctx, run, P.need("vbi_pfc_demux_feed", PFC))
    neg.helper_contract(ctx, run)

    # ---- RF-IVL --------------------------------------------------------------------------
    n_sub = 0
    for fn, unit in (("idl_a_demux_feed", IDL), ("vbi_idl_demux_feed", IDL), ("_vbi_pfc_demux_decode", PFC), ("vbi_pfc_demux_feed", PFC)):
        f = P.need(fn, unit)
        for node, n, base in ivl.subscripts(f):
            v = ivl.check_subscript(ctx, f, node, n, base)
            n_sub += 1
            key = "RF-IVL:%s:%s" % (fn, _subkey(f, node))
            if v.status == "holds":
                run.holds("RF-IVL", key, "%s: index in %s, %d elements" % (ex.pretty(f, node), v.iv, n), ex.loc(f, node),
                          nontrivial=v.iv is not None and v.iv[0] != v.iv[1])
            else:
                run.violation("RF-IVL", key, "%s: index interval %s against %d elements: %s" % (ex.pretty(f, node), v.iv, n, v.why),
                              ex.loc(f, node), witness={"function": fn, "subscript": ex.pretty(f, node), "interval": v.iv, "elements": n})
    run.floor("sized-array subscripts in the IDL/PFC feed paths", n_sub, 14)
    _pfc_memcpy(ctx, run, fd)

    # ---- RF-CORR: previous-byte tracker ----------------------------------------------------
    _histbyte(ctx, run, fa)

    # ---- RF-PURE ------------------------------------------------------------------------------
    for unit, allowed in ((IDL, {"idl_a_crc_table"}), (PFC, set())):
        bad = []
        n = 0
        for f in P.funcs:
            if f.unit != unit or f.file != unit:
                continue
            n += 1
            for bid, i in flow.all_events(f):
                for lhs, var, op, rhs in flow.stores(f, i):
                    if lhs is None:
                        continue
                    r = ex.root(f, lhs)
                    if r is not None and f.exprs[r].get("dk") in ("global", "slocal") and f.exprs[r]["name"] not in allowed:
                        bad.append((f, i))
        key = "RF-PURE:%s" % unit
        if bad:
            for f, i in bad:
                run.violation("RF-PURE", key, "`%s` writes an object with static storage duration: the demultiplexer's output is no "
                              "longer a function of its context and input alone" % ex.pretty(f, i)[:70], ex.loc(f, i))
        else:
            run.holds("RF-PURE", key, "%d functions, no store to static storage%s" % (n, " other than the CRC table" if allowed else ""),
                      unit, nontrivial=False)
    _reset_complete(ctx, run)
    _frame_gate(ctx, run)
    _frame_walk_complete(ctx, run)
    _crc_table_complete(ctx, run)
    _filter_keys_unmodified(ctx, run)
    from .. import sweep
    sweep.run(ctx, run, [IDL, PFC], {}, 15)

def _need(run, f, call, key, what, preds, ats):
    missing = [n for n, p in preds if not any(p(a) for a in ats)]
    if missing:
        run.violation("RF-DOM", key, "%s `%s` is not dominated by: %s" % (what, ex.pretty(f, call)[:50], "; ".join(missing)),
                      ex.loc(f, call), witness={"dominating": [repr(a) for a in ats], "missing": missing})
    else:
        run.holds("RF-DOM", key, "%s dominated by %s" % (what, "; ".join(n for n, _ in preds)), ex.loc(f, call))


def _indirect_calls(f, member):
    res = []
    for bid, i in flow.all_events(f):
        e = f.exprs[i]
        if e["k"] == "call" and "fn" in e:
            fe = f.exprs[ex.skip(f, e["fn"])]
            if fe["k"] == "un" and fe["op"] == "*":
                fe = f.exprs[ex.skip(f, fe["c"][0])]
            if fe["k"] == "mem" and fe["member"] == member:
                res.append(i)
    return res


def _fieldname(f, lhs):
    o = atoms.Operand(f, lhs)
    l = f.exprs[ex.skip(f, lhs)]
    return l.get("member") or "+".join(sorted(o.fields)) or ex.pretty(f, lhs)


def _subkey(f, node):
    e = f.exprs[node]
    b = f.exprs[ex.skip(f, e["c"][0])]
    while b["k"] == "cast":
        b = f.exprs[ex.skip(f, b["c"][0])]
    arr = b.get("member") or b.get("name") or "?"
    o = atoms.Operand(f, e["c"][1])
    c = ex.const(f, e["c"][1])
    return "%s[%s]@%d" % (arr, c if c is not None else ("+".join(sorted(o.locals)) + (o.incr or "")), _nth(f, node))


def _nth(f, node):
    """Ordinal of this subscript among those of the same array in the function
    (stable under edits elsewhere; line numbers are not used)."""
    e = f.exprs[node]
    base = ex.path(f, e["c"][0])
    n = 0
    for other, _, _ in ivl.subscripts(f):
        if ex.path(f, f.exprs[other]["c"][0]) == base:
            if other == node:
                return n
            n += 1
    return n


def _local_fed_by_table(f, operand, table):
    """The local is (only) computed from a lookup in `table`."""
    if not operand.locals or operand.fields:
        return False
    names = {sorted(operand.locals)[0]}
    seen = False
    for _ in range(4):          # follow copies between locals (a helper's result temporary, its own local)
        grew = False
        for bid, i in flow.all_events(f):
            for lhs, var, op, rhs in flow.stores(f, i):
                nm = var["name"] if var is not None else None
                if lhs is not None:
                    le = f.exprs[ex.skip(f, lhs)]
                    if le["k"] == "ref":
                        nm = le["name"]
                if nm in names and rhs is not None:
                    for n in ex.walk(f, rhs):
                        e = f.exprs[n]
                        if e["k"] == "ref" and e.get("name") == table:
                            seen = True
                        elif e["k"] == "ref" and e.get("dk") == "local" and e["name"] not in names:
                            names.add(e["name"])
                            grew = True
        if seen or not grew:
            break
    return seen


def _ge0_of_call_local(f, a, callee):
    """`x >= 0` where x is a local assigned from callee (...)."""
    if a.rel != ">=" or a.R is None or a.R.const != 0 or not a.L.locals or a.L.fields:
        return False
    name = sorted(a.L.locals)[0]
    for bid, i in flow.all_events(f):
        for lhs, var, op, rhs in flow.stores(f, i):
            nm = var["name"] if var is not None else None
            if lhs is not None:
                le = f.exprs[ex.skip(f, lhs)]
                if le["k"] == "ref":
                    nm = le["name"]
            if nm == name and rhs is not None:
                r = f.exprs[ex.skip(f, rhs)]
                if r["k"] == "call" and r.get("callee") == callee:
                    return True
    return False


def _blind_spot_flagged(ctx, run, f):
    """idl_a_demux_feed notices lost packets by comparing continuity indices.  `dx->ci = -1` switches that comparison off
    for the next packet (the `dx->ci >= 0` test), so a path that stores it has discarded data the comparison can no
    longer see: it must record the loss itself (`dx->flags |= VBI_IDL_DATA_LOST`) before it returns."""
    lost = P_const = None
    stores = []
    for bid, i in flow.all_events(f):
        for lhs, var, op, rhs in flow.stores(f, i):
            if lhs is None or rhs is None:
                continue
            l = f.exprs[ex.skip(f, lhs)]
            if l["k"] == "mem" and l.get("in") == "_vbi_idl_demux" and l["member"] == "ci" and op == "=":
                v = ex.const(f, rhs)
                if v is not None and v < 0:
                    stores.append(i)
    run.floor("stores that switch the IDL continuity check off", len(stores), 2)

    def sets_lost(ff, ii):
        for lhs, var, op, rhs in flow.stores(ff, ii):
            if lhs is None or rhs is None:
                continue
            l = ff.exprs[ex.skip(ff, lhs)]
            if l["k"] == "mem" and l.get("in") == "_vbi_idl_demux" and l["member"] == "flags" and op in ("|=", "="):
                v = ex.const(ff, rhs)
                if v is not None and v & 1:
                    return True
                if op == "=" and v is None and any(ex.const(ff, n) == 1 for n in ex.walk(ff, rhs)):
                    return True
        return False
    for i in stores:
        okp, _ = atoms.must_pass(f, i, sets_lost)
        bid, n = flow.elem_pos(f)[i]
        before = any(sets_lost(f, j) for j in f.blocks[bid].elems[:n] if flow.is_event(f, j))
        key = "RF-CORR:idl_a_demux_feed:blind-spot-flagged:%d" % (stores.index(i))
        if okp or before:
            run.holds("RF-CORR", key, "`%s` is accompanied by VBI_IDL_DATA_LOST on every path" % ex.pretty(f, i), ex.loc(f, i))
        else:
            run.violation("RF-CORR", key, "`%s` switches the continuity comparison off for the next packet, but a path returns without "
                          "recording VBI_IDL_DATA_LOST: the packet discarded here is never reported as lost" % ex.pretty(f, i),
                          ex.loc(f, i), witness={"function": f.name})


def _flags_dep(ctx, run, f):
    F_FLAGS = ("_vbi_idl_demux", "flags")
    clears = []
    for bid, i in flow.all_events(f):
        e = f.exprs[i]
        if e["k"] == "asg" and e["op"] == "&=":
            l = f.exprs[ex.skip(f, e["c"][0])]
            if l["k"] == "mem" and (l.get("in"), l["member"]) == F_FLAGS:
                clears.append((bid, i))
    run.floor("stores clearing VBI_IDL_DATA_LOST", len(clears), 1)
    cbs = _indirect_calls(f, "callback")
    for call in cbs:
        e = f.exprs[call]
        if len(e.get("c", [])) < 4:
            raise AnalysisBroken("IDL callback signature changed")
        arg = e["c"][3]
        key = "RF-DEP:idl_a_demux_feed:callback-flags"
        # loads of dx->flags inside the argument happen at the call, i.e. after
        # any clear that precedes the call on the path
        direct = [n for n in ex.walk(f, arg) if f.exprs[n]["k"] == "mem"
                  and (f.exprs[n].get("in"), f.exprs[n]["member"]) == F_FLAGS]
        cpos = flow.elem_pos(f)[call]
        bad = None
        for bid, i in clears:
            before_call = (bid == cpos[0] and flow.elem_pos(f)[i][1] < cpos[1]) or \
                (bid != cpos[0] and cpos[0] in flow.reach_from(f, bid))
            if before_call and direct:
                bad = i
        if bad is not None:
            run.violation("RF-DEP", key, "the callback receives `%s`, read after `%s` has cleared VBI_IDL_DATA_LOST: a recorded "
                          "loss is never reported (the value computed before the clear is not the one passed)"
                          % (ex.pretty(f, arg), ex.pretty(f, bad)), ex.loc(f, call),
                          witness={"argument": ex.pretty(f, arg), "clear": ex.pretty(f, bad)})
            continue
        # argument is a local: its definition must read dx->flags and precede the clear
        o = atoms.Operand(f, arg)
        ok = False
        for name in o.locals:
            for bid, i in flow.all_events(f):
                for lhs, var, op, rhs in flow.stores(f, i):
                    nm = var["name"] if var is not None else None
                    if lhs is not None:
                        le = f.exprs[ex.skip(f, lhs)]
                        if le["k"] == "ref":
                            nm = le["name"]
                    if nm == name and rhs is not None and "%s.%s" % F_FLAGS in atoms.Operand(f, rhs).fields:
                        # the definition precedes every clear that reaches the call
                        dpos = flow.elem_pos(f)[i]
                        if all((cb_ == dpos[0] and flow.elem_pos(f)[ci][1] > dpos[1]) or
                               (cb_ != dpos[0] and cb_ in flow.reach_from(f, dpos[0])) for cb_, ci in clears):
                            ok = True
        stale = None
        if ok:
            # ... and after every store that may raise the flag for the packet being delivered
            for name in o.locals:
                for bid, i in flow.all_events(f):
                    for lhs, var, op, rhs in flow.stores(f, i):
                        nm = var["name"] if var is not None else None
                        if lhs is not None and f.exprs[ex.skip(f, lhs)]["k"] == "ref":
                            nm = f.exprs[ex.skip(f, lhs)]["name"]
                        if nm != name or rhs is None or "%s.%s" % F_FLAGS not in atoms.Operand(f, rhs).fields:
                            continue
                        dpos = flow.elem_pos(f)[i]
                        for b2, j in flow.all_events(f):
                            e2 = f.exprs[j]
                            if e2["k"] == "asg" and e2["op"] in ("|=", "=") and j != i:
                                l2 = f.exprs[ex.skip(f, e2["c"][0])]
                                if l2["k"] == "mem" and (l2.get("in"), l2["member"]) == F_FLAGS and e2["op"] == "|=":
                                    jp = flow.elem_pos(f)[j]
                                    after_def = (b2 == dpos[0] and jp[1] > dpos[1]) or (b2 != dpos[0] and b2 in flow.reach_from(f, dpos[0]))
                                    before_call = (b2 == cpos[0] and jp[1] < cpos[1]) or (b2 != cpos[0] and cpos[0] in flow.reach_from(f, b2))
                                    if after_def and before_call:
                                        stale = (i, j)
        if ok and stale is not None:
            run.violation("RF-DEP", key, "the callback receives `%s`, computed by `%s` before `%s` may raise VBI_IDL_DATA_LOST for "
                          "the very packet being delivered: that loss is missing from the argument and is then erased by the clear"
                          % (ex.pretty(f, arg), ex.pretty(f, stale[0])[:60], ex.pretty(f, stale[1])[:50]), ex.loc(f, call),
                          witness={"definition": ex.pretty(f, stale[0]), "later_store": ex.pretty(f, stale[1])})
        elif ok:
            run.holds("RF-DEP", key, "the callback receives a local computed from dx->flags before VBI_IDL_DATA_LOST is cleared",
                      ex.loc(f, call))
        else:
            run.violation("RF-DEP", key, "the flags argument `%s` of the callback is not derived from dx->flags as accumulated "
                          "before the clear" % ex.pretty(f, arg), ex.loc(f, call))


def _init(ctx, run, rec, feed_fns, init_fns, unit):
    P = ctx.prog
    reads = {}
    for fn in feed_fns:
        f = P.need(fn, unit)
        for g in ctx.sums.reachable([f]).values():
            for n, e in enumerate(g.exprs):
                if e["k"] == "mem" and e.get("in") == rec and not _is_store_target(g, n):
                    reads.setdefault(e["member"], (g, n))
    writes = set()
    whole = False
    for fn in init_fns:
        f = P.need(fn, unit)
        run.touch(f)
        for g in ctx.sums.reachable([f]).values():
            for bid, i in flow.all_events(g):
                for lhs, var, op, rhs in flow.stores(g, i):
                    if lhs is None:
                        continue
                    l = g.exprs[ex.skip(g, lhs)]
                    while l["k"] == "idx":
                        l = g.exprs[ex.skip(g, l["c"][0])]
                    if l["k"] == "mem" and l.get("in") == rec and op == "=":
                        writes.add(l["member"])
                e = g.exprs[i]
                if e["k"] == "call" and e.get("callee") in ("memset", "__builtin_memset", "__builtin___memset_chk"):
                    a0 = g.exprs[ex.skip(g, e["c"][0])]
                    if a0.get("prec") == rec or (a0.get("t", "").startswith("struct " + rec)):
                        whole = True
    run.floor("%s fields read by the feed path" % rec, len(reads), 5)
    for fld, (g, n) in sorted(reads.items()):
        # array / aggregate members used as buffers are written before they are read by construction of the feed path
        r = P.field(rec, fld) or {}
        if "arr" in r or "rec" in r:
            continue
        key = "RF-INIT:%s.%s" % (rec, fld)
        if whole or fld in writes:
            run.holds("RF-INIT", key, "read by the feed path, written by %s" % "/".join(init_fns), ex.loc(g, n), nontrivial=False)
        else:
            run.violation("RF-INIT", key, "%s.%s is read by the feed path (%s: `%s`) but neither %s nor anything it calls writes it; "
                          "the object comes from vbi_malloc, so the first read is of uninitialised memory"
                          % (rec, fld, g.name, ex.pretty(g, n), "/".join(init_fns)), ex.loc(g, n),
                          witness={"record": rec, "field": fld, "reader": g.name})


def _is_store_target(f, n):
    """mem node n is the direct target of a plain assignment (not a read)."""
    c = f._cache.get("store_targets")
    if c is None:
        c = set()
        for i, e in enumerate(f.exprs):
            if e["k"] == "asg" and e["op"] == "=":
                c.add(ex.skip(f, e["c"][0]))
        f._cache["store_targets"] = c
    return n in c


def _pfc_memcpy(ctx, run, f):
    """memcpy (dx->block.block + dx->bi, buffer + col, size): size <= 42 - col
    and bi + size <= sizeof block."""
    an = ctx.analysis(f)
    n = 0
    for bid, i in flow.all_events(f):
        e = f.exprs[i]
        if e["k"] == "call" and e.get("callee") in ("memcpy", "__builtin___memcpy_chk", "__builtin_memcpy"):
            n += 1
            st = an.state_before_expr(i)
            size = an.eval(st, e["c"][2])
            key = "RF-IVL:_vbi_pfc_demux_decode:memcpy-length"
            # source: buffer + col, 42 bytes
            src_off = _ptr_offset(an, st, f, e["c"][1])
            ok_src = src_off is not None and size[1] is not None and _sum_le(an, st, f, e["c"][1], e["c"][2], 42)
            if not ok_src:
                # the same obligation as a linear inequality: source pointer + length <= packet + 42, with the length's
                # upper bounds taken from its defining MIN and pointers followed to their definitions
                from .. import linear
                pk = [p_["name"] for p_ in f.params if p_.get("t", "").rstrip().endswith("*") and p_ is not f.params[0]]
                src = linear.exact(f, e["c"][1], i)
                for U in linear.upper_bounds(f, e["c"][2], i):
                    if src is None:
                        break
                    tot = linear._add(src, U)
                    if len(tot[0]) == 1 and list(tot[0].items())[0][1] == 1 and list(tot[0])[0] in pk and tot[1] <= 42:
                        ok_src = True
            if ok_src:
                run.holds("RF-IVL", key, "memcpy reads size = MIN (left, 42 - col) bytes from buffer + col: col + size <= 42",
                          ex.loc(f, i))
            else:
                run.violation("RF-IVL", key, "memcpy from the 42-byte packet: offset %s + length %s is not bounded by 42"
                              % (src_off, size), ex.loc(f, i))
    run.floor("PFC block copies", n, 1)


def _ptr_offset(an, st, f, node):
    j = ex.skip(f, node)
    e = f.exprs[j]
    if e["k"] == "bin" and e["op"] == "+":
        return an.eval(st, e["c"][1])
    return (0, 0)


def _sum_le(an, st, f, ptr, size, limit):
    """offset(ptr) + size <= limit, using the defining MIN of `size`."""
    from .. import loops
    j = ex.skip(f, ptr)
    e = f.exprs[j]
    if not (e["k"] == "bin" and e["op"] == "+"):
        return False
    okey = an.track_key(e["c"][1])
    forms = set()
    # size is a local whose (single) definition is MIN (x, C - off)
    se = f.exprs[ex.skip(f, size)]
    while se["k"] == "cast":
        se = f.exprs[ex.skip(f, se["c"][0])]
    if se["k"] != "ref":
        return False
    for bid, i in flow.all_events(f):
        for lhs, var, op, rhs in flow.stores(f, i):
            nm = var["name"] if var is not None else None
            if lhs is not None:
                le = f.exprs[ex.skip(f, lhs)]
                if le["k"] == "ref":
                    nm = le["name"]
            if nm == se["name"] and rhs is not None:
                forms |= loops._upper_forms(an, f, rhs)
    return any(C <= limit and vkey == okey for C, vkey in forms)


def _histbyte(ctx, run, f):
    """In the dummy-byte detector: on every path of a loop iteration from the
    read of the data byte to the next iteration, either the byte equals the
    tracker (run continues) or the tracker is set to the byte."""
    from .. import loops
    # the tracker: a local compared for equality with the byte read from the packet
    tdefs = []
    for bid, i in flow.all_events(f):
        for lhs, var, op, rhs in flow.stores(f, i):
            if lhs is None or rhs is None or op != "=":
                continue
            le = f.exprs[ex.skip(f, lhs)]
            if le["k"] != "ref" or le.get("dk") != "local":
                continue
            if loops.innermost(f, bid) is None:
                continue
            r = f.exprs[ex.skip(f, rhs)]
            if r["k"] == "idx" and ivl.array_bound(f, ex.skip(f, rhs)) and ivl.array_bound(f, ex.skip(f, rhs))[0] == 42:
                tdefs.append((bid, i, le["name"]))
    if not tdefs and getattr(f, "inlined", None):
        run.note("idl_a_demux_feed: the payload loop now reads through a pointer of an inlined helper (%s); the data-byte rule "
                 "does not apply to this shape" % ", ".join(f.inlined))
        return
    run.floor("IDL data-byte reads inside the payload loop", len(tdefs), 1)
    for bid, i, tname in tdefs:
        head = loops.innermost(f, bid)
        body = loops.natural_loops(f)[head]
        # equality tests `t == h` in the body
        trackers = set()
        eq_T = set()
        for b2 in body:
            t = f.blocks[b2].term
            if not t or "cond" not in t:
                continue
            for s, lab in f.edges(b2):
                for a in atoms.edge_atoms(f, b2, lab):
                    if a.rel == "==" and a.R is not None and a.R.const is None and not a.L.fields and not a.R.fields \
                            and (tname in a.L.locals) != (tname in a.R.locals):
                        other = (a.R.locals if tname in a.L.locals else a.L.locals)
                        if len(other) == 1:
                            trackers |= set(other)
                            eq_T.add(s)
        if not trackers:
            raise AnalysisBroken("idl_a_demux_feed: previous-byte comparison not found")
        h = sorted(trackers)[0]
        stores = set()
        for b2 in body:
            for j in flow.events(f, b2):
                for lhs, var, op, rhs in flow.stores(f, j):
                    if lhs is None or rhs is None or op != "=":
                        continue
                    le = f.exprs[ex.skip(f, lhs)]
                    re_ = f.exprs[ex.skip(f, rhs)]
                    while re_["k"] == "cast":
                        re_ = f.exprs[ex.skip(f, re_["c"][0])]
                    if le["k"] == "ref" and le["name"] == h and re_["k"] == "ref" and re_["name"] == tname:
                        stores.add(b2)
        # reach the loop head from the read while avoiding both
        seen = set()
        st = [s for s, _ in f.edges(bid)] if bid not in stores else []
        bad = False
        while st:
            n = st.pop()
            if n in seen or n in stores or n in eq_T or n not in body:
                continue
            if n == head:
                bad = True
                break
            seen.add(n)
            st.extend(s for s, _ in f.edges(n))
        key = "RF-CORR:idl_a_demux_feed:previous-byte-tracker"
        if bad:
            run.violation("RF-CORR", key, "a path of the payload loop goes from the read of the data byte `%s` to the next iteration "
                          "with the byte different from `%s` and without `%s = %s`: the run detector keeps counting a run that "
                          "has ended (a second dummy byte of a long 0x00/0xFF run is delivered as data)" % (tname, h, h, tname),
                          ex.loc(f, i), witness={"byte": tname, "tracker": h})
        else:
            run.holds("RF-CORR", key, "every iteration either finds %s == %s or stores %s = %s" % (tname, h, h, tname), ex.loc(f, i))


def _channel_filter(ctx, run, f):
    run.touch(f)
    n = 0
    for bid, i in flow.all_events(f):
        e = f.exprs[i]
        if e["k"] == "call" and e.get("callee") in ("idl_a_demux_feed", "idl_b_demux_feed"):
            n += 1
            ats = atoms.atoms_at(f, i)
            ch = any(a.rel == "==" and a.R is not None and a.R.const is None and
                     ((a.L.has("_vbi_idl_demux.channel") and a.L.node is not None and f.exprs[ex.skip(f, a.L.node)]["k"] in ("mem", "cast")
                       and not a.L.locals - set() and len(a.L.fields) == 1 and a.R.locals and not a.R.fields and _plain(f, a.R.node) and _plain(f, a.L.node))
                      or (a.R.has("_vbi_idl_demux.channel") and len(a.R.fields) == 1 and a.L.locals and not a.L.fields
                          and _plain(f, a.L.node) and _plain(f, a.R.node))) for a in ats)
            des = any(a.rel == "==" and ((a.R is not None and a.R.const == 15) or a.L.const == 15) for a in ats)
            key = "RF-DOM:vbi_idl_demux_feed:%s:channel-filter" % e["callee"]
            if ch and des:
                run.holds("RF-DOM", key, "the format handler runs only for designation 15 and `channel == dx->channel` (all four bits)",
                          ex.loc(f, i))
            else:
                run.violation("RF-DOM", key, "the format handler is not dominated by %s: packets of another data channel (packet "
                              "30 vs 31 of the same magazine differ in bit 3 only) are fed into this channel's stream"
                              % " and ".join(x for x, ok in (("`channel == dx->channel` on the whole decoded channel", ch),
                                                             ("designation == 15", des)) if not ok), ex.loc(f, i),
                              witness={"dominating": [repr(a) for a in ats]})
    run.floor("IDL format handler calls", n, 1)


def _plain(f, node):
    """node is a variable / field read, possibly through integer casts (no masking, no arithmetic)."""
    if node is None:
        return False
    j = ex.skip(f, node)
    e = f.exprs[j]
    while e["k"] == "cast":
        j = ex.skip(f, e["c"][0])
        e = f.exprs[j]
    return e["k"] in ("ref", "mem")


def _ci_range(ctx, run):
    from .. import fieldinv
    inv = fieldinv.Invariants(ctx, [dict(rec="_vbi_pfc_demux", field="ci", lo=0, hi=15, also=(256,),
                                         why="256 = 'matches nothing' after a reset; otherwise the next expected page continuity index, "
                                             "compared with the 4 bit CI of the stream")])
    if inv.missing:
        raise AnalysisBroken("vbi_pfc_demux.ci no longer exists")
    inv.install()
    n = inv.verify(run)
    run.floor("writers of vbi_pfc_demux.ci", sum(n.values()), 2)


def _page_complete_at_header(ctx, run, f):
    """When a new page header is accepted, the block in progress survives only if the previous page
    was received to its end: the branch that decides about the reset must look at the expected
    packet number against n_packets, not at the continuity index alone."""
    run.touch(f)
    n = 0
    for bid, i in flow.all_events(f):
        e = f.exprs[i]
        if not (e["k"] == "call" and e.get("callee") == "vbi_pfc_demux_reset"):
            continue
        # the (possibly short-circuit) condition that leads into the block with the reset: the
        # terminators of its predecessor blocks
        flds = set()
        for pb in f.blocks[bid].preds:
            t = f.blocks[pb].term
            if t and "cond" in t:
                flds |= {x.split(".")[-1] for x in atoms.Operand(f, t["cond"]).fields}
                flds |= {x for x in atoms.Operand(f, t["cond"]).locals}
        if "ci" not in flds:
            continue            # the other resets (packet continuity, Hamming errors)
        n += 1
        key = "RF-DOM:vbi_pfc_demux_feed:header-checks-page-complete"
        # the edges that by-pass the reset: one of them has to state `packet > n_packets` (the next expected packet
        # lies beyond the last one of the previous page, i.e. that page was received to its end); `>=` lets a page
        # through whose last packet is missing
        strict = False
        weak = None
        for pb in f.blocks[bid].preds:
            t = f.blocks[pb].term
            if not (t and "cond" in t):
                continue
            for s_, lab in f.edges(pb):
                if s_ == bid:
                    continue
                for a in atoms.edge_atoms(f, pb, lab):
                    if a.R is None:
                        continue
                    lf = {x.split(".")[-1] for x in a.L.fields}
                    rf = {x.split(".")[-1] for x in a.R.fields}
                    rel = a.rel
                    if lf == {"n_packets"} and rf == {"packet"}:
                        lf, rf, rel = rf, lf, atoms.FLIP[rel]
                    if lf == {"packet"} and rf == {"n_packets"}:
                        if rel == ">":
                            strict = True
                        else:
                            weak = a
        if {"packet", "n_packets"} <= flds and weak is not None and not strict:
            run.violation("RF-CMP", key, "a page header keeps the block in progress under `%s`: the previous page is complete only "
                          "when the next expected packet lies beyond n_packets (packet > n_packets); with the last packet of the page "
                          "missing the unfinished block is completed with bytes of the next page and delivered" % weak, ex.loc(f, i),
                          witness={"function": f.name, "bypass_condition": repr(weak)})
        elif {"packet", "n_packets"} <= flds:
            run.holds("RF-DOM", key, "a page header resets the block in progress when the continuity index is wrong or the previous "
                      "page stopped short of n_packets", ex.loc(f, i))
        else:
            run.violation("RF-DOM", key, "a page header resets the block in progress only on a wrong continuity index (condition reads %s): "
                          "when the last packets of the previous page are lost the unfinished block is completed with bytes of the "
                          "next page and delivered" % sorted(flds), ex.loc(f, i))
    run.floor("reset on page header in vbi_pfc_demux_feed", n, 1)


def _reset_complete(ctx, run):
    """RF-INIT: every field of a demultiplexer's state that the per-packet code writes is also
    written by its reset function - what survives vbi_idl_demux_reset() / vbi_pfc_demux_reset()
    (a pending data-lost flag, a continuity index, a fill level) is reported or used on the first
    delivery after the reset although it belongs to the stream before it."""
    P = ctx.prog
    for unit, rec, reset in (("src/idl_demux.c", "_vbi_idl_demux", "vbi_idl_demux_reset"),
                             ("src/pfc_demux.c", "_vbi_pfc_demux", "vbi_pfc_demux_reset")):
        rf = P.need(reset, unit)
        run.touch(rf)
        writers = {}
        for f in P.funcs:
            if f.file != unit:
                continue
            for bid, i in flow.all_events(f):
                for lhs, var, op, rhs in flow.stores(f, i):
                    if lhs is None:
                        continue
                    l = f.exprs[ex.skip(f, lhs)]
                    while l["k"] == "idx":
                        l = f.exprs[ex.skip(f, l["c"][0])]
                    if l["k"] == "mem" and l.get("in") == rec:
                        writers.setdefault(l["member"], set()).add(f.name)
        setup = {n for n in {w for ws in writers.values() for w in ws} if n.endswith(("_init", "_new", "_destroy", "_delete"))}
        dynamic = {fld for fld, ws in writers.items() if ws - setup - {reset}}
        if not dynamic:
            raise AnalysisBroken("%s: no per-packet writer of %s state found" % (unit, rec))
        run.floor("%s fields written by the per-packet code" % rec, len(dynamic), 3)
        for fld in sorted(dynamic):
            key = "RF-INIT:%s:%s" % (reset, fld)
            if reset in writers[fld]:
                run.holds("RF-INIT", key, "%s.%s (written by %s) is reset by %s()" % (rec, fld, ", ".join(sorted(writers[fld] - {reset})), reset),
                          "%s:%d" % (rf.file, rf.line), nontrivial=False)
            else:
                run.violation("RF-INIT", key, "%s.%s is written by %s but not by %s(): its value from before the reset (a channel "
                              "change) is used for the first packets after it - a pending data-lost flag is reported on a delivery "
                              "that lost nothing" % (rec, fld, ", ".join(sorted(writers[fld] - setup)), reset),
                              "%s:%d" % (rf.file, rf.line), witness={"field": fld})


def _frame_gate(ctx, run):
    """RF-BITS: a sliced line is Teletext System B when its id has *either* line-range bit
    (VBI_SLICED_TELETEXT_B_L10_625 | _L25_625 = 3; the raw decoder emits the single-bit ids).
    Both frame feeders hand a line to their per-packet feed under the mask test `id & 3`; an
    equality test (or a narrower mask) skips lines the other feeder - and vbi_decode - accept,
    which breaks the continuity sequence of the selected page/channel."""
    P = ctx.prog
    for name, unit, callee in (("vbi_pfc_demux_feed_frame", PFC, "vbi_pfc_demux_feed"),
                               ("vbi_idl_demux_feed_frame", IDL, "vbi_idl_demux_feed")):
        f = P.need(name, unit)
        run.touch(f)
        calls = [i for _, i in flow.all_events(f) if f.exprs[i]["k"] == "call" and f.exprs[i].get("callee") == callee]
        if not calls:
            raise AnalysisBroken("%s no longer calls %s" % (name, callee))
        for i in calls:
            ok, seen = False, []
            for a in atoms.atoms_at(f, i):
                if not a.L.has("vbi_sliced.id"):
                    continue
                seen.append(repr(a))
                n = f.exprs[ex.skip(f, a.L.node)] if a.L.node is not None else None
                if a.rel == "!=" and a.R is not None and a.R.const == 0 and n is not None and n["k"] == "bin" and n["op"] == "&":
                    m = [ex.const(f, c) for c in n["c"]]
                    m = [x for x in m if x is not None]
                    if m and (m[0] & 3) == 3:
                        ok = True
            key = "RF-BITS:%s:teletext-gate" % name
            if ok:
                run.holds("RF-BITS", key, "the per-packet feed is called under `id & mask != 0` with both Teletext B line-range bits "
                          "in the mask", ex.loc(f, i))
            else:
                run.violation("RF-BITS", key, "%s() does not hand every Teletext B line to %s(): the gate on sliced->id is %s, not a "
                              "mask test covering both line-range bits (0x3) - lines tagged with a single range bit are skipped and "
                              "the packet continuity of the selected stream breaks" % (name, callee, "; ".join(seen) or "missing"),
                              ex.loc(f, i))


def _frame_walk_complete(ctx, run):
    """RF-CORR: the per-packet feed functions refuse every Teletext packet with an uncorrectable
    address byte - before they look at its channel or page - so a damaged packet of an unrelated
    service makes them return FALSE.  The frame feeders must nevertheless look at every line of
    the frame: the only way out of their line loop is the loop condition.  Leaving at the first
    refused line loses the intact packets of the selected channel behind it (IDL: a data-lost
    flag on a stream that lost nothing; PFC: the block in progress)."""
    from .. import loops
    P = ctx.prog
    for name, unit in (("vbi_pfc_demux_feed_frame", PFC), ("vbi_idl_demux_feed_frame", IDL)):
        f = P.need(name, unit)
        run.touch(f)
        L = loops.natural_loops(f)
        if not L:
            raise AnalysisBroken("%s: line loop not found" % name)
        head = max(L, key=lambda h: len(L[h]))
        body = L[head]
        early = []
        # blocks reachable from the head's body-successor without passing the head again
        inside = set(body)
        st = [s for s, _ in f.edges(head) if s in body]
        seen = set()
        while st:
            b = st.pop()
            if b in seen or b == head:
                continue
            seen.add(b)
            for s, _ in f.edges(b):
                if s not in inside and s != head:
                    # a block that leaves the loop: is it a return?
                    early.append(b)
                st.append(s) if s in inside else None
            # blocks after a `return` inside the loop are not part of the natural loop: look one step further
        for b in list(seen):
            for s, _ in f.edges(b):
                if s not in inside and s != f.exit:
                    if any(f.exprs[i]["k"] == "ret" for i in f.blocks[s].elems):
                        early.append(s)
        key = "RF-CORR:%s:every-line-visited" % name
        if early:
            b = early[0]
            line = f.blocks[b].term["line"] if f.blocks[b].term else (f.exprs[f.blocks[b].elems[0]]["line"] if f.blocks[b].elems else f.line)
            run.violation("RF-CORR", key, "%s() leaves its loop over the lines of the frame before the last line (a return inside the "
                          "loop): after one refused packet - any Teletext packet with an uncorrectable address, of whatever service "
                          "- the remaining lines of the frame are never fed and intact packets of the selected channel are lost"
                          % name, "%s:%d" % (f.file, line))
        else:
            run.holds("RF-CORR", key, "the line loop is left only through its own condition: every line of the frame is fed",
                      "%s:%d" % (f.file, f.line))


def _crc_table_complete(ctx, run):
    """RF-INIT: the IDL format A CRC is computed through a 256 entry table indexed with a data
    byte xor the running CRC - any of the 256 values.  init_crc16_table() fills table[i] for i
    over exactly 0 ... 255 (interval of the index at the store): an entry left at zero makes valid
    packets fail their CRC (about one in eight) and lets some damaged ones pass."""
    P = ctx.prog
    f = P.need("init_crc16_table", IDL)
    run.touch(f)
    an = ctx.analysis(f)
    pn = f.params[0]["name"]
    n = 0
    lo, hi = None, None
    for bid, i in flow.all_events(f):
        for lhs, var, op, rhs in flow.stores(f, i):
            if lhs is None:
                continue
            l = f.exprs[ex.skip(f, lhs)]
            if l["k"] == "idx" and f.exprs[ex.skip(f, l["c"][0])].get("name") == pn:
                n += 1
                st = an.state_before_expr(i)
                v = an.eval(st, l["c"][1]) if st is not None else (None, None)
                lo = v[0] if lo is None else min(lo, v[0]) if v[0] is not None else None
                hi = v[1] if hi is None else max(hi, v[1]) if v[1] is not None else None
                site = i
    if not n:
        raise AnalysisBroken("init_crc16_table: no store into the table")
    key = "RF-INIT:init_crc16_table:all-256-entries"
    if lo == 0 and hi == 255:
        run.holds("RF-INIT", key, "table[i] is stored for i in [0, 255]", ex.loc(f, site))
    else:
        run.violation("RF-INIT", key, "init_crc16_table() stores table[i] for i in [%s, %s] only; the CRC is looked up with any byte "
                      "value 0 ... 255, so the entries left out stay zero: valid packets that hit them are rejected and flagged as "
                      "data loss, damaged ones can pass" % (lo, hi), ex.loc(f, site), witness={"index": [lo, hi]})


def _filter_keys_unmodified(ctx, run):
    """RF-CORR: the PFC demultiplexer delivers the blocks of the page and stream it was opened
    for; the page header carries a 4 bit stream number.  _vbi_pfc_demux_init() stores the
    caller's pgno and stream as they are - a masked or otherwise narrowed copy makes a
    demultiplexer opened for stream 9 deliver stream 1 and never its own."""
    P = ctx.prog
    f = P.need("_vbi_pfc_demux_init", PFC)
    run.touch(f)
    params = {p["name"] for p in f.params}
    n = 0
    for bid, i in flow.all_events(f):
        for lhs, var, op, rhs in flow.stores(f, i):
            if lhs is None or rhs is None or op != "=":
                continue
            l = f.exprs[ex.skip(f, lhs)]
            if not (l["k"] == "mem" and l["member"] in ("stream", "pgno") and l.get("in") == "vbi_pfc_block"):
                continue
            n += 1
            r = f.exprs[ex.skip(f, rhs)]
            while r["k"] == "cast":
                r = f.exprs[ex.skip(f, r["c"][0])]
            key = "RF-CORR:_vbi_pfc_demux_init:%s-as-given" % l["member"]
            if r["k"] == "ref" and r.get("name") in params:
                run.holds("RF-CORR", key, "`%s` stores the caller's value unmodified" % ex.pretty(f, i)[:50], ex.loc(f, i))
            else:
                run.violation("RF-CORR", key, "`%s` does not store the caller's %s as given: the filter then selects another %s "
                              "than the one the demultiplexer was opened for (blocks of a foreign stream are delivered, the "
                              "selected one never)" % (ex.pretty(f, i)[:50], l["member"], l["member"]), ex.loc(f, i))
    run.floor("filter keys stored by _vbi_pfc_demux_init", n, 2)


def _pfc_scan_reaches_packet_end(ctx, run, f):
    """_vbi_pfc_demux_decode() walks the 42 bytes of a packet with the column cursor `col`.  Where it stops with TRUE
    because the cursor ran out ("no more data in this packet"), the cursor has reached the end of the packet: a block separator may stand in any
    of the remaining columns (its structure header continues in the next packet), and a scan that gives up early skips it
    - the whole next block is dropped while feed() still reports success.  Decided on the interval state: at every
    successful return inside the column loop the lower bound of the cursor is the packet size."""
    from .. import loops
    size = None
    for p in f.params:
        if "[" in p.get("t", "") or p.get("arr"):
            size = (p.get("arr") or [None])[0]
    size = size or 42
    an = ctx.analysis(f)
    L = loops.natural_loops(f)
    n = 0
    for head, body in L.items():
        t = f.blocks[head].term
        if not t or "cond" not in t:
            continue
        c = f.exprs[ex.skip(f, t["cond"])]
        if not (c["k"] == "bin" and c["op"] in ("<", "<=")):
            continue
        cur = f.exprs[ex.skip(f, c["c"][0])]
        if cur["k"] != "ref":
            continue
        allowed = {cur["name"]}
        if ex.const(f, c["c"][1]) in (size, size - 1):
            key_ = an.track_key(c["c"][0])
        else:
            # the same loop with a pointer cursor: `p < packet_end`, packet_end standing at buffer + 42
            endr = f.exprs[ex.skip(f, c["c"][1])]
            es = loops._entry_state(an, head, body)
            if es is None or es.get(("pb", cur["name"])) is None:
                continue
            if endr["k"] == "ref":
                if es.get(("pb", endr.get("name"))) != es.get(("pb", cur["name"])) or es.get(("iv", "@" + endr["name"])) != (size, size):
                    continue
                allowed = {cur["name"], endr["name"]}
            elif endr["k"] == "bin" and endr["op"] == "+":
                # `p < buffer + 42` (what N4 leaves of a new `packet_end` local)
                a0, a1 = f.exprs[ex.skip(f, endr["c"][0])], f.exprs[ex.skip(f, endr["c"][1])]
                while a0["k"] == "cast" and a0.get("c"):
                    a0 = f.exprs[ex.skip(f, a0["c"][0])]
                if not (a0["k"] == "ref" and a0.get("dk") == "param" and (a0.get("arr") or [None])[0] == size
                        and ex.const(f, endr["c"][1]) == size and es[("pb", cur["name"])][0] == size):
                    continue
                allowed = {cur["name"], a0["name"]}
            else:
                continue
            key_ = ("iv", "@" + cur["name"])
        # successful returns the loop body reaches without going through the head again
        region = set(body)
        for b in list(body):
            region |= flow.reach_from(f, b, avoid={head})
        for bid in sorted(region):
            for i in flow.events(f, bid):
                e = f.exprs[i]
                if e["k"] != "ret" or not e.get("c") or ex.const(f, e["c"][0]) in (0, None):
                    continue
                if bid not in body and not any(flow.dominates(f, b2, bid) for b2 in body if b2 != head):
                    continue
                st = an.state_before(i)
                if st is None:
                    continue
                # the "cursor ran out" exit: the innermost branch in front of the return tests the cursor itself (other
                # successful returns are decided by the block pointer or by the bytes still missing from the block)
                de = flow.dominating_edges(f, bid)
                if not de or de[0][2] is None or de[0][1] not in ("T", "F"):
                    continue
                inner = atoms.atoms_of(f, de[0][2], de[0][1] == "T", de[0][0], de[0][1])
                if not inner or not all(a.R is not None and not a.L.fields and not a.L.calls and not a.R.fields and not a.R.calls
                                        and cur["name"] in (a.L.locals | a.R.locals) and (a.L.locals | a.R.locals) <= allowed
                                        for a in inner):
                    continue
                n += 1
                iv = st.get(key_) if key_ is not None else None
                key = "RF-IVL:%s:scan-reaches-packet-end@%d" % (f.name, e.get("line", 0))
                if iv is not None and iv[0] is not None and iv[0] >= size:
                    run.holds("RF-IVL", key, "`return TRUE` inside the column loop only with %s >= %d" % (cur["name"], size), ex.loc(f, i))
                else:
                    run.violation("RF-IVL", key, "inside the column loop `%s` is reached with %s as low as %s: the scan gives up with "
                                  "%d bytes of the packet left, a block separator standing there is skipped and the block it "
                                  "announces is dropped although the feed reports success"
                                  % (ex.pretty(f, i), cur["name"], iv[0] if iv and iv[0] is not None else "unbounded",
                                     size - (iv[0] if iv and iv[0] is not None else 0)), ex.loc(f, i),
                                  witness={"function": f.name, "cursor_interval": list(iv) if iv else None})
    if n == 0 and not any((f.blocks[h].term or {}).get("cond") is not None and
                          ex.const(f, f.exprs[ex.skip(f, f.blocks[h].term["cond"])].get("c", [None, None])[1]
                                   if f.exprs[ex.skip(f, f.blocks[h].term["cond"])]["k"] == "bin" else None) in (size, size - 1)
                          for h in L):
        # no loop over a column index any more (a pointer cursor compared with an end expression): this clause is not
        # decided on such a shape; the subscript / cursor bounds of the function are still decided by RF-IVL
        run.note("_vbi_pfc_demux_decode: the column loop is not written over an index compared with the packet size; the "
                 "'scan reaches the packet end' clause was not decided in this run")
        return
    run.floor("successful returns inside the PFC column loop", n, 1)
