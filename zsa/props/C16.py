"""C16 — export/rendering: single write layer, grow-before-store, bounded
text output, unsupported pixel formats draw nothing."""
from .. import atoms, ex, flow, loops
from ..prog import AnalysisBroken

CLAUSE = ("(RF-WHO) the export modules (text, html, vtx, templ, gfx: ppm/png/xpm) and everything they call inside libzvbi "
          "perform output only through the export write layer; direct stdio/POSIX output (fwrite, fputc, fputs, putc, "
          "(v)fprintf to a non-stderr stream, write) occurs only in export.c's write_fp, write_fd and the FP branch of "
          "vbi_export_vprintf - a necessary condition of 'four targets, identical bytes'; (RF-DOM) every store into the export "
          "buffer (memcpy to e->buffer.data + offset, e->buffer.data[...] =) is dominated by a TRUE result of "
          "_vbi_export_grow_buffer_space, and _vbi_export_grow_buffer_space returns TRUE only with capacity - offset >= min_space "
          "or after a successful grow; vbi_export_vprintf advances the offset by vsnprintf's result only under `result < space` "
          "(strictly: vsnprintf has then written result bytes and a NUL); in vbi_print_page_region / print_unicode every store "
          "through the output cursor is dominated by a test that at least the bytes stored remain before buf + size; "
          "vbi_draw_vt_page_region / vbi_draw_cc_page_region return before any drawing for pixel formats other than the two "
          "supported ones.")
CLAUSE = CLAUSE + (" vbi_export_mem: when the write layer moved to a heap buffer (target ALLOC) the data is copied back into the "
                   "caller's buffer before the heap buffer is freed; in vbi_draw_vt/cc_page_region every additive term of a canvas "
                   "pointer advance depends on the pixel size (canvas_type) or on the row stride.")
CLAUSE = CLAUSE + (" In ppm_export's caller-buffer branch the advance capacity check (sized for the pixel rows only) is not "
                   "followed by a formatted write before the unchecked row stores (the header is written first); the iconv "
                   "character set name of each text export format is the one its menu label names.")
CLAUSE = CLAUSE + (" A block handed straight to the target (e->_write with anything but the export buffer) is dominated by "
                   "fast_flush(); in the glyph renderers rowstride (bytes) occurs inside a pixel index only divided by canvas_type.")
CLAUSE = CLAUSE + (" Every html_instance field written while a page is exported is reset by free_styles(); vbi_export_file opens "
                   "its target with O_TRUNC.")
CLAUSE = CLAUSE + (" Every export entry point clears write_error before it calls the module's export function; the two region renderers admit the same set of pixel formats (value partitioning over enum vbi_pixfmt).")
NOT_DECIDED = ("pixel rectangle arithmetic under arbitrary rowstride, character-for-character fidelity of the text output, "
               "byte identity of the targets as values.")

EXPORT = "src/export.c"
MODULES = ("src/exp-txt.c", "src/exp-html.c", "src/exp-gfx.c", "src/exp-vtx.c", "src/exp-templ.c")
RAW_OUT = {"fwrite", "fputc", "fputs", "putc", "putchar", "puts", "printf", "vprintf", "fprintf", "vfprintf", "write", "pwrite",
           "fputc_unlocked", "fwrite_unlocked", "putc_unlocked", "dprintf", "__fprintf_chk", "__vfprintf_chk", "__printf_chk"}
OWNERS = {"write_fp", "write_fd", "vbi_export_vprintf"}


def _is_stderr(f, arg):
    for n in ex.walk(f, arg):
        e = f.exprs[n]
        if e["k"] == "ref" and e.get("name") == "stderr":
            return True
    return False


def run(ctx, run):
    P = ctx.prog
    # ---- RF-WHO ---------------------------------------------------------------
    roots = []
    for unit in MODULES:
        for f in P.funcs:
            if f.file == unit:
                roots.append(f)
    run.floor("functions in the export modules", len(roots), 40)
    reach = ctx.sums.reachable(roots)
    n_calls = 0
    bad = 0
    for f in list(reach.values()) + [g for g in P.funcs if g.file == EXPORT]:
        for bid, i in flow.all_events(f):
            e = f.exprs[i]
            if e["k"] != "call" or e.get("callee") not in RAW_OUT:
                continue
            n = e["callee"]
            if n in ("fprintf", "vfprintf", "__fprintf_chk", "__vfprintf_chk", "fputs", "fputc", "putc", "fwrite"):
                stream = e["c"][0] if n in ("fprintf", "vfprintf", "__fprintf_chk", "__vfprintf_chk") else e["c"][-1]
                if _is_stderr(f, stream):
                    continue           # diagnostics
            n_calls += 1
            run.touch(f)
            key = "RF-WHO:%s:%s" % (f.name, n)
            if f.file == EXPORT and f.name in OWNERS:
                run.holds("RF-WHO", key, "%s () in the write layer's %s" % (n, f.name), ex.loc(f, i), nontrivial=False)
            else:
                bad += 1
                run.violation("RF-WHO", key, "%s calls %s () directly: that output reaches only a stdio/fd target (or stdout) and "
                              "bypasses the buffer used for the memory targets, so the four export targets no longer produce the "
                              "same bytes" % (f.name, n), ex.loc(f, i), witness={"function": f.name, "call": ex.pretty(f, i)[:80]})
    run.floor("raw output call sites seen", n_calls, 3)
    if not bad:
        run.holds("RF-WHO", "RF-WHO:export-modules", "%d functions reachable from the export modules make no direct stdio/fd output "
                  "call (stderr diagnostics aside)" % len(reach), "src/exp-*.c")

    _grow_before_store(ctx, run)
    _grow_contract(ctx, run, P.need("_vbi_export_grow_buffer_space", EXPORT))
    _grow_keeps_offset(ctx, run, P.need("_vbi_export_grow_buffer_space", EXPORT))
    _vprintf(ctx, run, P.need("vbi_export_vprintf", EXPORT))
    _print_region(ctx, run)
    _pixfmt(ctx, run)
    _pixfmt_sets(ctx, run)
    _targets_start_clean(ctx, run)
    _mem_copy_back(ctx, run, P.need("vbi_export_mem", EXPORT))
    _pixel_size_terms(ctx, run)
    _mem_room_exact(ctx, run)
    _format_names(ctx, run)
    _flush_before_direct_write(ctx, run)
    _stride_units(ctx, run)
    _html_state_reset(ctx, run)
    _file_truncated(ctx, run)


def _grow_before_store(ctx, run):
    P = ctx.prog
    n = 0
    for f in P.funcs:
        if not f.unit.startswith("src/") or f.name == "_vbi_export_grow_buffer_space":
            continue
        for bid, i in flow.all_events(f):
            e = f.exprs[i]
            hit = None
            if e["k"] == "call" and e.get("callee") in ("memcpy", "__builtin___memcpy_chk", "__builtin_memcpy", "memset", "__builtin___memset_chk"):
                if "anon@src/export.h" in str(atoms.Operand(f, e["c"][0]).fields) or any(x.endswith(".data") and "buffer" in ex.pretty(f, e["c"][0]) for x in atoms.Operand(f, e["c"][0]).fields):
                    if "vbi_export.buffer" in atoms.Operand(f, e["c"][0]).fields:
                        hit = i
            else:
                for lhs, var, op, rhs in flow.stores(f, i):
                    if lhs is None:
                        continue
                    l = f.exprs[ex.skip(f, lhs)]
                    if l["k"] in ("idx",) or (l["k"] == "un" and l["op"] == "*"):
                        o = atoms.Operand(f, lhs)
                        if "vbi_export.buffer" in o.fields and any(x.endswith(".data") for x in o.fields):
                            hit = i
            if hit is None:
                continue
            n += 1
            run.touch(f)
            ats = atoms.atoms_at(f, hit)
            ok = any(a.call_cmp("_vbi_export_grow_buffer_space", "!=", 0) for a in ats)
            key = "RF-DOM:%s:grow-before-store" % f.name
            if ok:
                run.holds("RF-DOM", key, "`%s` is dominated by a successful _vbi_export_grow_buffer_space" % ex.pretty(f, hit)[:60], ex.loc(f, hit))
            else:
                run.violation("RF-DOM", key, "`%s` writes into the export buffer without a dominating successful "
                              "_vbi_export_grow_buffer_space: with a caller buffer that is too small (vbi_export_mem) the bytes land "
                              "past its end" % ex.pretty(f, hit)[:70], ex.loc(f, hit), witness={"dominating": [repr(a) for a in ats]})
    run.floor("direct stores into the export buffer", n, 1)


def _grow_contract(ctx, run, f):
    run.touch(f)
    rets = [(b, i) for b, i in flow.all_events(f) if f.exprs[i]["k"] == "ret" and f.exprs[i].get("c")
            and ex.const(f, f.exprs[i]["c"][0]) not in (0, None)]
    run.floor("TRUE returns of _vbi_export_grow_buffer_space", len(rets), 2)
    pmin = f.params[1]["name"]
    for b, i in rets:
        ats = atoms.atoms_at(f, i)
        # `capacity >= min_space` and `capacity - min_space >= offset`, each in either spelling: read every
        # comparison as big >= small
        def sides(a):
            if a.R is None or a.rel not in (">=", ">", "<=", "<"):
                return None
            return (a.L, a.R) if a.rel in (">=", ">") else (a.R, a.L)
        ss = [x for x in (sides(a) for a in ats) if x is not None]
        fits = any(small.locals == {pmin} and not small.fields and pmin not in big.locals for big, small in ss) and \
            any(pmin in big.locals and pmin not in small.locals and small.const is None for big, small in ss)
        grown = any(a.rel == "!=" and a.R is not None and a.R.const == 0 and (("_vbi_grow_vector_capacity" in a.L.calls) or
                                                                                 _from(f, a.L, "_vbi_grow_vector_capacity")) for a in ats)
        key = "RF-DOM:_vbi_export_grow_buffer_space:true-means-space:%d" % (len([1 for x in rets if x[1] <= i]))
        if fits or grown:
            run.holds("RF-DOM", key, "TRUE is returned %s" % ("with capacity >= min_space and offset <= capacity - min_space" if fits
                                                               else "after _vbi_grow_vector_capacity succeeded"), ex.loc(f, i))
        else:
            run.violation("RF-DOM", key, "_vbi_export_grow_buffer_space returns TRUE on a path that neither found enough free space "
                          "nor grew the buffer: the caller then stores past the capacity", ex.loc(f, i),
                          witness={"dominating": [repr(a) for a in ats]})


def _grow_keeps_offset(ctx, run, f):
    """_vbi_export_grow_buffer_space() makes room behind the write position; it must not move the position: no store
    to e->buffer.offset, no memset / structure assignment over e->buffer as a whole (that also zeroes the offset: what was
    written so far is then overwritten from the start and the size reported to vbi_export_mem() is short)."""
    n = 0
    for bid, i in flow.all_events(f):
        e = f.exprs[i]
        bad = None
        for lhs, var, op, rhs in flow.stores(f, i):
            if lhs is None:
                continue
            l = f.exprs[ex.skip(f, lhs)]
            if l["k"] == "mem" and l["member"] == "offset" and ex.pretty(f, ex.skip(f, lhs)).endswith("buffer.offset"):
                bad = "`%s` stores to the write position" % ex.pretty(f, i)[:60]
            if l["k"] == "mem" and l["member"] == "buffer" and l.get("in") == "vbi_export":
                bad = "`%s` overwrites the whole buffer record, the write position included" % ex.pretty(f, i)[:60]
        if e["k"] == "call" and e.get("callee") in ("memset", "__builtin_memset", "__builtin___memset_chk") and e.get("c"):
            a0 = ex.pretty(f, e["c"][0])
            sz = ex.const(f, e["c"][2]) if len(e["c"]) > 2 else None
            if a0.replace(" ", "").endswith("->buffer") and (sz is None or sz > 16):
                bad = "`%s` clears the whole buffer record, the write position included" % ex.pretty(f, i)[:60]
        if bad:
            n += 1
            run.violation("RF-NOWRITE", "RF-NOWRITE:_vbi_export_grow_buffer_space:offset", "%s: growing the buffer must keep "
                          "e->buffer.offset - the bytes exported so far are overwritten from the start and vbi_export_mem() "
                          "reports a size that is too small" % bad, ex.loc(f, i), witness={"function": f.name})
    if not n:
        run.holds("RF-NOWRITE", "RF-NOWRITE:_vbi_export_grow_buffer_space:offset", "_vbi_export_grow_buffer_space never writes "
                  "e->buffer.offset (no store, no memset of the record)", "%s:%d" % (f.file, f.line), nontrivial=False)


def _from(f, operand, callee):
    if not operand.locals or operand.fields:
        return False
    name = sorted(operand.locals)[0]
    for bid, i in flow.all_events(f):
        for lhs, var, op, rhs in flow.stores(f, i):
            nm = var["name"] if var is not None else (f.exprs[ex.skip(f, lhs)].get("name") if lhs is not None else None)
            if nm == name and rhs is not None:
                r = f.exprs[ex.skip(f, rhs)]
                if r["k"] == "call" and r.get("callee") == callee:
                    return True
    return False


def _vprintf(ctx, run, f):
    run.touch(f)
    vs = [i for b, i in flow.all_events(f) if f.exprs[i]["k"] == "call" and f.exprs[i].get("callee") in ("vsnprintf", "__builtin___vsnprintf_chk", "__vsnprintf_chk")]
    if not vs:
        raise AnalysisBroken("vbi_export_vprintf: vsnprintf call not found")
    call = vs[0]
    size_arg = f.exprs[call]["c"][1]
    size_locals = atoms.Operand(f, size_arg).locals
    res_local = None
    for b, i in flow.all_events(f):
        for lhs, var, op, rhs in flow.stores(f, i):
            if rhs is not None and ex.skip(f, rhs) == call:
                res_local = var["name"] if var is not None else f.exprs[ex.skip(f, lhs)].get("name")
    if res_local is None:
        raise AnalysisBroken("vbi_export_vprintf: result of vsnprintf is not kept")
    adv = [(b, i) for b, i in flow.all_events(f) if atoms.store_to_field("anon@src/export.h.offset")(f, i) or _stores_offset(f, i)]
    adv = [(b, i) for b, i in adv if res_local in atoms.Operand(f, flow.stores(f, i)[0][3]).locals]
    run.floor("offset advances by the vsnprintf result", len(adv), 1)
    for b, i in adv:
        ats = atoms.atoms_at(f, i)
        ok = any(a.rel == "<" and res_local in a.L.locals and a.R is not None and (a.R.locals & size_locals) for a in ats)
        key = "RF-DOM:vbi_export_vprintf:result-below-space"
        if ok:
            run.holds("RF-DOM", key, "the offset advances by vsnprintf's result only under result < space (strict)", ex.loc(f, i))
        else:
            run.violation("RF-DOM", key, "the offset advances by vsnprintf's result without `result < space`: when the output ends "
                          "exactly at the buffer capacity vsnprintf has replaced the last byte by NUL, yet the offset counts it - the "
                          "memory targets then differ from the stdio target in that byte", ex.loc(f, i),
                          witness={"dominating": [repr(a) for a in ats]})


def _stores_offset(f, i):
    for lhs, var, op, rhs in flow.stores(f, i):
        if lhs is None:
            continue
        l = f.exprs[ex.skip(f, lhs)]
        if l["k"] == "mem" and l["member"] == "offset" and "vbi_export.buffer" in atoms.Operand(f, lhs).fields:
            return True
    return False


def _print_region(ctx, run):
    P = ctx.prog
    unit = "src/exp-txt.c"
    n = 0
    for name in ("vbi_print_page_region", "print_unicode"):
        f = P.need(name, unit)
        run.touch(f)
        for bid, i in flow.all_events(f):
            for lhs, var, op, rhs in flow.stores(f, i):
                if lhs is None:
                    continue
                l = f.exprs[ex.skip(f, lhs)]
                # *p++ = c   or   *(*p)++ = c  : a store through the output cursor
                if not (l["k"] == "un" and l["op"] == "*"):
                    continue
                t = l.get("t", "")
                if t not in ("char", "unsigned char"):
                    continue
                n += 1
                ats = atoms.atoms_at(f, i)
                ok = False
                for a in ats:
                    if a.R is None or a.R.const is None:
                        continue
                    room = (a.rel == ">=" and a.R.const >= 1) or (a.rel == ">" and a.R.const >= 0)
                    if room and a.L.locals and not a.L.fields and _is_room(f, a.L):
                        ok = True
                key = "RF-DOM:%s:room-before-store@%d" % (name, n)
                if ok:
                    run.holds("RF-DOM", key, "`%s` is dominated by a test that at least one byte remains before the end of the caller's "
                              "buffer" % ex.pretty(f, i)[:50], ex.loc(f, i))
                else:
                    run.violation("RF-DOM", key, "`%s` stores through the output cursor without a dominating `remaining >= 1` test: when "
                                  "the text so far fills the buffer exactly the byte lands at buf[size]" % ex.pretty(f, i)[:50],
                                  ex.loc(f, i), witness={"dominating": [repr(a) for a in ats]})
    run.floor("raw stores through the text output cursor", n, 1)


def _is_room(f, operand):
    """The local (or parameter) measures remaining room: it is a size parameter
    or is computed as `buf + size - p` / decreased as bytes are written."""
    name = sorted(operand.locals)[0]
    for p in f.params:
        if p["name"] == name and p.get("it"):
            return True            # print_unicode's `n`: remaining bytes passed by the caller
    for bid, i in flow.all_events(f):
        for lhs, var, op, rhs in flow.stores(f, i):
            nm = var["name"] if var is not None else (f.exprs[ex.skip(f, lhs)].get("name") if lhs is not None else None)
            if nm == name and rhs is not None:
                r = f.exprs[ex.skip(f, rhs)]
                while r["k"] == "cast":
                    r = f.exprs[ex.skip(f, r["c"][0])]
                if r["k"] == "bin" and r["op"] == "-" and len(atoms.Operand(f, rhs).locals) >= 2:
                    return True
    return False


def _pixfmt(ctx, run):
    P = ctx.prog
    unit = "src/exp-gfx.c"
    for name in ("vbi_draw_vt_page_region", "vbi_draw_cc_page_region"):
        f = P.need(name, unit)
        run.touch(f)
        pfmt = f.params[1]["name"]
        draws = [i for b, i in flow.all_events(f) if f.exprs[i]["k"] == "call" and f.exprs[i].get("callee") in ("draw_char", "draw_drcs", "draw_blank")]
        if not draws:
            raise AnalysisBroken("%s: no drawing calls found" % name)
        # the type variable set on the two supported formats
        bad = 0
        for i in draws:
            ats = atoms.atoms_at(f, i)
            # every path to a draw call took an edge `fmt == <supported>`: i.e. the draw is unreachable from the
            # edge on which both format tests failed
            pass
        # find the `return` reachable with both tests false
        tests = []
        for bid, b in f.blocks.items():
            t = b.term
            if t and "cond" in t and pfmt in atoms.Operand(f, t["cond"]).locals:
                tests.append(bid)
        if len(tests) < 2:
            raise AnalysisBroken("%s: pixel format tests not found" % name)
        # start from the entry, follow only `fmt != X` edges through the tests
        n = f.entry
        seen = set()
        st = [f.entry]
        reached_draw = False
        dblocks = {flow.elem_pos(f)[i][0] for i in draws}
        while st:
            n = st.pop()
            if n in seen:
                continue
            seen.add(n)
            if n in dblocks:
                reached_draw = True
                break
            for s, lab in f.edges(n):
                if n in tests:
                    ats = atoms.edge_atoms(f, n, lab)
                    if any(a.rel == "==" and pfmt in a.L.locals for a in ats):
                        continue          # a supported format: not the path we follow
                st.append(s)
        key = "RF-DOM:%s:unsupported-format-draws-nothing" % name
        if reached_draw:
            run.violation("RF-DOM", key, "%s can reach a drawing call on the path where the pixel format equals neither supported "
                          "format: the canvas is written with an undefined pixel size" % name, "%s:%d" % (f.file, f.line))
        else:
            run.holds("RF-DOM", key, "with fmt different from both supported formats no drawing call is reachable (%d draw site(s))"
                      % len(draws), "%s:%d" % (f.file, f.line))


def _pixfmt_sets(ctx, run):
    """The set of pixel formats for which a region renderer draws, computed by value partitioning: the function is
    analysed once per enumerator of vbi_pixfmt (the parameter fixed to that value) and a format is *admitted* when a
    drawing call stays reachable.  Both renderers share draw_char/draw_blank, which exist for one 32 bit layout and
    for PAL8 only: the two admitted sets have to agree, and every admitted format needs a canvas_type of its own
    pixel size."""
    from .. import absint
    P = ctx.prog
    en = None
    for name_, e in P.enums.items():
        if any(k.startswith("VBI_PIXFMT_") for k in e["enumerators"]):
            en = e["enumerators"]
    if not en:
        raise AnalysisBroken("anchor vanished: enum vbi_pixfmt")
    sets = {}
    for name in ("vbi_draw_vt_page_region", "vbi_draw_cc_page_region"):
        f = P.need(name, "src/exp-gfx.c")
        run.touch(f)
        pfmt = f.params[1]["name"]
        draws = [i for b, i in flow.all_events(f) if f.exprs[i]["k"] == "call" and f.exprs[i].get("callee") in ("draw_char", "draw_drcs", "draw_blank")]
        adm = set()
        for k, v in en.items():
            an = absint.Analysis(ctx, f, {pfmt: (v, v)}).run()
            if any(an.state_before(i) is not None for i in draws):
                adm.add(k)
        sets[name] = adm
    a, b = sets["vbi_draw_vt_page_region"], sets["vbi_draw_cc_page_region"]
    key = "RF-TAB:region-renderers:admitted-pixel-formats"
    if not a or not b:
        raise AnalysisBroken("a region renderer admits no pixel format at all (value partitioning failed)")
    if a == b:
        run.holds("RF-TAB", key, "both region renderers draw for exactly %s (of %d pixel formats)" % (sorted(a), len(en)), "src/exp-gfx.c")
    else:
        run.violation("RF-TAB", key, "vbi_draw_vt_page_region draws for %s, vbi_draw_cc_page_region for %s: the shared character "
                      "renderers exist for one layout per pixel size, so a format only one of them admits (%s) is drawn with another "
                      "format's pixel values instead of leaving the canvas untouched" % (sorted(a), sorted(b), sorted(a ^ b)),
                      "src/exp-gfx.c", witness={"vt": sorted(a), "cc": sorted(b)})


def _targets_start_clean(ctx, run):
    """Every export entry point (mem, alloc, stdio, file) hands a context to the module's export function whose
    write_error flag it has cleared itself: the flag is sticky in the write layer, so an entry point that leaves
    it alone fails after any earlier failed export on the same context while the other targets succeed."""
    P = ctx.prog
    n = 0
    for f in P.funcs:
        if f.file != EXPORT or f.cfg_failed:
            continue
        calls = [(b, i) for b, i in flow.all_events(f) if f.exprs[i]["k"] == "call" and not f.exprs[i].get("callee")
                 and "fn" in f.exprs[i] and any(f.exprs[m]["k"] == "mem" and f.exprs[m]["member"] == "export"
                                                for m in ex.walk(f, f.exprs[i]["fn"]))]
        for b, i in calls:
            n += 1
            run.touch(f)
            ok = False
            for bb, j in flow.all_events(f):
                if atoms.store_to_field("vbi_export.write_error", 0)(f, j):
                    pj, pi = flow.elem_pos(f)[j], flow.elem_pos(f)[i]
                    if (bb == b and pj[1] < pi[1]) or (bb != b and flow.dominates(f, bb, b)):
                        ok = True
            key = "RF-INIT:%s:write_error-cleared" % f.name
            if ok:
                run.holds("RF-INIT", key, "e->write_error = FALSE dominates the call of the module's export function", ex.loc(f, i))
            else:
                run.violation("RF-INIT", key, "%s() calls the module's export function without clearing e->write_error first: after "
                              "a failed export on the same context this target fails at its first write although the page exports "
                              "fine to the other targets" % f.name, ex.loc(f, i), witness={"function": f.name})
    run.floor("export entry points calling the module's export function", n, 4)


def _mem_copy_back(ctx, run, f):
    """The write layer may switch from the caller's buffer to a heap buffer although the output
    fits after all (vprintf asks for len + 1): what was written after the switch exists only in the
    heap buffer, so it must be copied into the caller's buffer before that one is freed."""
    run.touch(f)
    frees = [(b, i) for b, i in flow.all_events(f) if f.exprs[i]["k"] == "call" and f.exprs[i].get("callee") == "free"
             and "buffer.data" in ex.pretty(f, f.exprs[i]["c"][0])]
    if not frees:
        raise AnalysisBroken("vbi_export_mem: the free of the heap buffer was not found")
    buf = f.params[1]["name"]
    for b, i in frees:
        if not any(a.cmp_const("==", "vbi_export.target", ctx.prog.enum_consts.get("VBI_EXPORT_TARGET_ALLOC")) or
                   ("target" in repr(a) and "ALLOC" in repr(a)) for a in atoms.atoms_at(f, i)):
            continue
        # only the success path: dominated by the TRUE edge of the module's export () call
        succ = False
        for a in atoms.dominating_atoms(f, b):
            # the module's export function (an indirect call) returned non-zero - whichever way the test is written
            if a.rel == "!=" and a.R is not None and a.R.const == 0 and a.L.node is not None:
                n0 = f.exprs[ex.skip(f, a.L.node)]
                while n0["k"] == "cast":
                    n0 = f.exprs[ex.skip(f, n0["c"][0])]
                if n0["k"] == "call" and "fn" in n0:
                    succ = True
        if not succ:
            continue
        key = "RF-DOM:vbi_export_mem:copy-back-before-free"
        ok = False
        for b2, j in flow.all_events(f):
            e = f.exprs[j]
            if e["k"] == "call" and e.get("callee") in ("memcpy", "memmove") and len(e["c"]) >= 2:
                d = atoms.Operand(f, e["c"][0])
                s_ = ex.pretty(f, e["c"][1])
                if buf in d.locals and "buffer.data" in s_ and flow.dominates(f, b2, b) and \
                        (b2 != b or flow.elem_pos(f)[j][1] < flow.elem_pos(f)[i][1]):
                    ok = True
        if ok:
            run.holds("RF-DOM", key, "memcpy (%s, e->buffer.data, ...) dominates the free of the heap buffer on the success path" % buf,
                      ex.loc(f, i))
        else:
            run.violation("RF-DOM", key, "on the success path the heap buffer the write layer switched to is freed without copying "
                          "its content back into the caller's buffer: when the output fits exactly (the switch is triggered by "
                          "vprintf's len + 1 request) the last bytes of the export are missing from the buffer although the call "
                          "reports success", ex.loc(f, i), witness={"function": f.name})


def _terms(f, node, out):
    j = ex.skip(f, node)
    e = f.exprs[j]
    while e["k"] == "cast":
        j = ex.skip(f, e["c"][0])
        e = f.exprs[j]
    if e["k"] == "bin" and e["op"] in ("+", "-"):
        _terms(f, e["c"][0], out)
        _terms(f, e["c"][1], out)
    else:
        out.append(j)


def _pixel_size_terms(ctx, run):
    P = ctx.prog
    n = 0
    for name in ("vbi_draw_cc_page_region", "vbi_draw_vt_page_region"):
        f = P.need(name, "src/exp-gfx.c")
        run.touch(f)
        # definitions of locals used as advances
        defs = {}
        for b, i in flow.all_events(f):
            for lhs, var, op, rhs in flow.stores(f, i):
                if rhs is None or op != "=":
                    continue
                nm = var["name"] if var is not None else None
                if lhs is not None:
                    l = f.exprs[ex.skip(f, lhs)]
                    if l["k"] == "ref":
                        nm = l["name"]
                if nm:
                    defs.setdefault(nm, []).append(rhs)
        adv = []
        for b, i in flow.all_events(f):
            e = f.exprs[i]
            if e["k"] == "asg" and f.exprs[ex.skip(f, e["c"][0])].get("name") == "canvas":
                ts = []
                _terms(f, e["c"][1], ts)
                for t in ts:
                    o = atoms.Operand(f, t)
                    if o.locals == {"canvas"}:
                        continue
                    if len(o.locals) == 1 and not o.fields and list(o.locals)[0] in defs and f.exprs[t]["k"] == "ref":
                        for d in defs[list(o.locals)[0]]:
                            _terms(f, d, adv)
                    else:
                        adv.append(t)
        for t in adv:
            o = atoms.Operand(f, t)
            n += 1
            key = "RF-DEP:%s:advance-term:%s" % (name, "+".join(sorted(o.locals)) or "const")
            if "canvas_type" in o.locals or "rowstride" in o.locals:
                run.holds("RF-DEP", key, "canvas advance term `%s` scales with the pixel size / row stride" % ex.pretty(f, t)[:60],
                          ex.loc(f, t), nontrivial=False)
            else:
                run.violation("RF-DEP", key, "the canvas pointer advance term `%s` does not depend on the pixel size of the requested "
                              "format (canvas_type) nor on the row stride: for the other pixel format the cursor lands outside the "
                              "requested rectangle from the second text row on" % ex.pretty(f, t)[:70], ex.loc(f, t),
                              witness={"function": name, "term": ex.pretty(f, t)})
    run.floor("canvas advance terms in the region renderers", n, 4)


def _mem_room_exact(ctx, run):
    """vbi_export_mem: ppm_export reserves exactly the bytes of the pixel rows and then stores the rows
    without further checks.  Anything that advances the buffer offset between that reservation and
    the rows (the header printf) eats into the reserved room."""
    P = ctx.prog
    f = P.need("ppm_export", "src/exp-gfx.c")
    run.touch(f)
    MEM = P.enum_consts.get("VBI_EXPORT_TARGET_MEM")
    n = 0
    adv = ("vbi_export_printf", "vbi_export_vprintf", "vbi_export_write", "vbi_export_puts", "vbi_export_putc")
    for bid, i in flow.all_events(f):
        e = f.exprs[i]
        if not (e["k"] == "call" and e.get("callee") == "_vbi_export_grow_buffer_space"):
            continue
        if not any(a.rel == "==" and a.R is not None and (a.R.const == MEM or a.L.const == MEM) and
                   (a.L.has("vbi_export.target") or a.R.has("vbi_export.target")) for a in atoms.atoms_at(f, i)):
            continue
        n += 1
        bad = None
        seen, stack = set(), [(bid, flow.elem_pos(f)[i][1] + 1)]
        while stack and bad is None:
            b, k0 = stack.pop()
            if (b, k0 > 0) in seen:
                continue
            seen.add((b, k0 > 0))
            stop = False
            for j in f.blocks[b].elems[k0:]:
                ej = f.exprs[j]
                if ej["k"] == "call":
                    if ej.get("callee") == "_vbi_export_grow_buffer_space":
                        stop = True
                        break
                    if ej.get("callee") in adv:
                        bad = j
                        break
            if not stop and bad is None:
                for s2, _ in f.edges(b):
                    stack.append((s2, 0))
        key = "RF-DOM:ppm_export:reserved-room-not-consumed"
        if bad is None:
            run.holds("RF-DOM", key, "nothing advances the buffer offset between the reservation for the pixel rows and the rows", ex.loc(f, i))
        else:
            run.violation("RF-DOM", key, "`%s` advances the buffer offset after room was reserved for exactly the pixel rows: the "
                          "unchecked row stores end that many bytes past the reservation - past the caller's buffer when it is "
                          "a few bytes short of the needed size" % ex.pretty(f, bad)[:50], ex.loc(f, bad), witness={"function": f.name})
    run.floor("caller-buffer reservations in ppm_export", n, 1)


def _strings_of(ctx, name):
    for g in ctx.prog.globals.get(name, []):
        if "init" not in g:
            continue
        exprs = g["exprs"]
        out = []

        def walk(i):
            e = exprs[i]
            if e["k"] == "str":
                out.append(e.get("s", ""))
                return
            for c in e.get("c", []) or []:
                walk(c)
        walk(g["init"])
        return out
    return None


def _format_names(ctx, run):
    labels = _strings_of(ctx, "formats")
    names = _strings_of(ctx, "iconv_formats")
    if not labels or not names:
        raise AnalysisBroken("exp-txt.c: formats[] / iconv_formats[] not readable (%s, %s)" % (labels, names))
    key = "RF-TAB:exp-txt:iconv-name-matches-label"
    if len(labels) != len(names):
        run.violation("RF-TAB", key, "formats[] has %d entries, iconv_formats[] %d: the option's range check uses the former, the "
                      "export indexes the latter" % (len(labels), len(names)), "src/exp-txt.c")
        return
    bad = [(k, a, b) for k, (a, b) in enumerate(zip(labels, names)) if b.upper() not in a.upper()]
    if bad:
        k, a, b = bad[0]
        run.violation("RF-TAB", key, "text export format %d is offered as \"%s\" but converts with iconv name \"%s\": characters "
                      "outside the common subset come out wrong" % (k, a[:40], b), "src/exp-txt.c", witness={"entries": bad[:4]})
    else:
        run.holds("RF-TAB", key, "all %d iconv names occur in the label of their menu entry" % len(names), "src/exp-txt.c")


def _flush_before_direct_write(ctx, run):
    """RF-DEP: output bytes reach the target in the order the module produced them.  The write
    layer buffers small writes; a block that bypasses the buffer (e->_write with anything but the
    export buffer itself) may go out only after the buffered bytes did, i.e. after a dominating
    fast_flush() - otherwise a large block overtakes the header written before it (stdio, fd and
    file targets only: memory targets would still look right)."""
    P = ctx.prog
    n = 0
    for f in P.funcs:
        if f.file != EXPORT:
            continue
        pos = flow.elem_pos(f)
        flushes = [(b, i) for b, i in flow.all_events(f) if f.exprs[i]["k"] == "call" and f.exprs[i].get("callee") == "fast_flush"]
        for bid, i in flow.all_events(f):
            e = f.exprs[i]
            if e["k"] != "call" or e.get("callee") or len(e.get("c", [])) < 3:
                continue
            fn = f.exprs[ex.skip(f, e["fn"])] if isinstance(e.get("fn"), int) else None
            txt = ex.pretty(f, i)
            if "_write" not in txt.split("(")[0] and not (fn is not None and fn.get("member") == "_write"):
                continue
            data = ex.pretty(f, e["c"][1]) if len(e["c"]) > 1 else ""
            if "buffer.data" in data:
                continue          # the flush itself: writes the buffered bytes
            n += 1
            run.touch(f)
            ok = any((b == bid and pos[j][1] < pos[i][1]) or (b != bid and flow.dominates(f, b, bid)) for b, j in flushes)
            key = "RF-DEP:%s:flush-before-direct-write" % f.name
            if ok:
                run.holds("RF-DEP", key, "`%s` is dominated by fast_flush(): buffered bytes go out first" % txt[:50], ex.loc(f, i))
            else:
                run.violation("RF-DEP", key, "`%s` hands a block straight to the target while earlier, smaller writes may still sit "
                              "in the export buffer (no fast_flush() dominates it): on stream and file targets the block lands "
                              "ahead of them and the file differs from the memory export" % txt[:60], ex.loc(f, i))
    run.floor("unbuffered target writes in export.c", n, 1)


def _stride_units(ctx, run):
    """RF-UNIT: in the glyph renderers `rowstride` is a *byte* distance while the index of a
    peek/poke is in pixels of canvas_type bytes: inside a subscript rowstride appears only as
    rowstride / canvas_type.  (Byte-pointer arithmetic `canvas += rowstride` is the other,
    correct, use.)  A bare rowstride in an index puts the doubled line canvas_type times too far
    down - outside the glyph cell, for a tight canvas outside the buffer."""
    P = ctx.prog
    n = 0
    for name in ("draw_char", "draw_drcs", "draw_blank"):
        f = P.need(name, "src/exp-gfx.c")
        run.touch(f)
        parent = {}
        for i, e in enumerate(f.exprs):
            for c in e.get("c", []) or []:
                if isinstance(c, int) and c >= 0:
                    parent[c] = i
        bad = []
        for i, e in enumerate(f.exprs):
            if e["k"] != "idx":
                continue
            for j in ex.walk(f, e["c"][1]):
                x = f.exprs[j]
                if x["k"] == "ref" and x.get("name") == "rowstride":
                    n += 1
                    k = j
                    while k in parent and f.exprs[parent[k]]["k"] == "cast":
                        k = parent[k]
                    p = f.exprs[parent[k]] if k in parent else None
                    good = False
                    if p is not None and p["k"] == "bin" and p["op"] == "/" and p["c"][0] == k:
                        d = f.exprs[ex.skip(f, p["c"][1])]
                        while d["k"] == "cast":
                            d = f.exprs[ex.skip(f, d["c"][0])]
                        good = d["k"] == "ref" and d.get("name") == "canvas_type"
                    if not good:
                        bad.append(i)
        key = "RF-UNIT:%s:rowstride-in-index" % name
        if bad:
            i = bad[0]
            run.violation("RF-UNIT", key, "%s(): the pixel index `%s` uses the byte distance rowstride without dividing by "
                          "canvas_type: for 2- and 4-byte pixels the line below is addressed %s lines further down, outside the "
                          "rectangle being drawn" % (name, ex.pretty(f, f.exprs[i]["c"][1])[:60], "canvas_type"), ex.loc(f, i),
                          witness={"sites": len(bad)})
        else:
            run.holds("RF-UNIT", key, "every rowstride inside a peek/poke index is divided by canvas_type", "%s:%d" % (f.file, f.line))
    run.floor("rowstride uses inside pixel indices", n, 20)


def _html_state_reset(ctx, run):
    """RF-INIT: an export context can be used for any number of exports (the documented
    size-query idiom calls vbi_export_mem twice).  Every html_instance field the per-page code
    writes - the running text attribute state - is written by free_styles(), which ends each
    export, too; what survives decides the default style and the set of span classes of the next
    page, so two exports of one page differ.  (`cd`, the conversion descriptor, is a resource that
    is opened and closed explicitly.)"""
    P = ctx.prog
    writers = {}
    for f in P.funcs:
        if f.file != "src/exp-html.c":
            continue
        for bid, i in flow.all_events(f):
            for lhs, var, op, rhs in flow.stores(f, i):
                if lhs is None:
                    continue
                l = f.exprs[ex.skip(f, lhs)]
                while l["k"] == "idx":
                    l = f.exprs[ex.skip(f, l["c"][0])]
                if l["k"] == "mem" and l.get("in") == "html_instance":
                    writers.setdefault(l["member"], set()).add(f.name)
    fs = P.need("free_styles", "src/exp-html.c")
    run.touch(fs)
    dynamic = {k for k, ws in writers.items() if "export" in ws and k != "cd"}
    run.floor("html_instance fields written by the per-page code", len(dynamic), 8)
    for fld in sorted(dynamic):
        key = "RF-INIT:free_styles:%s" % fld
        if "free_styles" in writers[fld]:
            run.holds("RF-INIT", key, "html->%s is reset at the end of each export" % fld, "%s:%d" % (fs.file, fs.line), nontrivial=False)
        else:
            run.violation("RF-INIT", key, "html->%s is written while a page is exported but not reset by free_styles(): the next "
                          "export with the same context starts from the last page's value (export() reads the colours before "
                          "header() runs), so the same page exports to different HTML - the size query and the real export "
                          "disagree" % fld, "%s:%d" % (fs.file, fs.line))


def _file_truncated(ctx, run):
    """RF-BITS: vbi_export_file() produces a file whose content is exactly the exported data:
    the open flags contain O_TRUNC, or an existing longer file keeps its tail."""
    P = ctx.prog
    f = P.need("vbi_export_file", EXPORT)
    run.touch(f)
    n = 0
    for bid, i in flow.all_events(f):
        e = f.exprs[i]
        if e["k"] != "call" or e.get("callee") not in ("xopen", "open", "open64") or len(e.get("c", [])) < 2:
            continue
        n += 1
        flags = ex.const(f, e["c"][1])
        key = "RF-BITS:vbi_export_file:truncates"
        O_TRUNC = 0o1000
        if flags is not None and flags & O_TRUNC:
            run.holds("RF-BITS", key, "open flags %#o include O_TRUNC" % flags, ex.loc(f, i))
        else:
            run.violation("RF-BITS", key, "vbi_export_file() opens the target with flags %s, without O_TRUNC: exporting over an "
                          "existing, longer file leaves the old tail behind the new data - the file is not byte-identical to the "
                          "other targets" % (("%#o" % flags) if flags is not None else "that are not constant"), ex.loc(f, i))
    run.floor("opens of the export file", n, 1)
