"""Linear upper bounds of integer expressions through reaching definitions.

upper_bounds(f, node) returns linear forms U = (coefs {name: k}, const) with
value(node) <= U at that program point, following locals to their single
reaching definition and expanding the MIN idiom (`a < b ? a : b` is <= a and
<= b).  Names that are not resolved (parameters, fields, locals without a
unique reaching definition, or names in `stop`) are the variables of the forms.
The evaluation is over mathematical integers: it is used for budget
obligations of the kind  limit + a + b <= capacity  whose operands the code has
already range-checked (no wrap-around is modelled; stated in the evidence).
"""
from . import ex, flow

MAX_FORMS = 8


def _stores_to_local(f, i, name):
    for lhs, var, op, rhs in flow.stores(f, i):
        if var is not None:
            if var["name"] == name:
                return (op, rhs)
        elif lhs is not None:
            le = f.exprs[ex.skip(f, lhs)]
            if le["k"] == "ref" and le.get("name") == name and le.get("dk") in ("local", "param"):
                return (op, rhs)
    return None


def reaching_def(f, name, use_eid):
    """(event id, op, rhs node) of the single definition of local `name` that reaches
    use_eid, or None (none / ambiguous)."""
    pos = flow.elem_pos(f)
    p = pos.get(use_eid)
    if p is None:
        return None
    bid, n = p
    found = None
    for i in reversed(f.blocks[bid].elems[:n]):
        if flow.is_event(f, i):
            s = _stores_to_local(f, i, name)
            if s:
                found = (i, bid)
                break
    if found is None:
        d = flow.idom(f)
        node = ("b", bid)
        while found is None and node in d and d[node] != node:
            node = d[node]
            if node[0] != "b":
                continue
            for i in reversed(f.blocks[node[1]].elems):
                if flow.is_event(f, i):
                    s = _stores_to_local(f, i, name)
                    if s:
                        found = (i, node[1])
                        break
    if found is None:
        # the use is guarded by a flag whose only non-zero store sits in one block (the result of an inlined helper:
        # `ok = 0` on the failure paths, `ok = 1` next to the out-parameter store): that block was executed
        from . import atoms
        d = flow.idom(f)
        for src, lab, cond in flow.dominating_edges(f, bid):
            if found is not None or cond is None or lab not in ("T", "F"):
                continue
            tbi = atoms._const_flag_info(f, cond, lab == "T", src)
            if tbi is None:
                continue
            node = ("b", tbi[0])
            while found is None and node is not None:
                if node[0] == "b":
                    for i in reversed(f.blocks[node[1]].elems):
                        if flow.is_event(f, i) and _stores_to_local(f, i, name):
                            found = (i, node[1])
                            break
                nxt = d.get(node)
                node = nxt if nxt is not None and nxt != node else None
    if found is None:
        return None
    di, dbid = found
    # no other store to the name between the definition and the use
    if dbid != bid:
        fwd = set()
        for s_, _ in f.edges(dbid):
            fwd |= flow.reach_from(f, s_, avoid={dbid})
        back = _reach_back(f, bid, avoid={dbid})
        mid = (fwd & back) - {dbid, bid}
        for m in mid:
            for i in flow.events(f, m):
                if _stores_to_local(f, i, name):
                    return None
        for i in f.blocks[dbid].elems[pos[di][1] + 1:]:
            if flow.is_event(f, i) and _stores_to_local(f, i, name):
                return None
    op, rhs = _stores_to_local(f, di, name)
    return di, op, rhs


def changed_between(f, name, d_eid, u_eid):
    """May local `name` be stored to on a path from event d_eid to event u_eid that does not execute d_eid again?"""
    pos = flow.elem_pos(f)
    if d_eid not in pos or u_eid not in pos:
        return True
    (db, dn), (ub, un) = pos[d_eid], pos[u_eid]
    if db == ub and dn < un:
        span = [(db, dn + 1, un)]
    else:
        fwd = set()
        for s, _ in f.edges(db):
            fwd |= flow.reach_from(f, s, avoid={db})
        back = _reach_back(f, ub, avoid={db})
        mid = (fwd & back) - {db, ub}
        span = [(db, dn + 1, None), (ub, 0, un)] + [(m, 0, None) for m in mid]
        if ub in fwd and any(ub in flow.reach_from(f, s, avoid={db}) for s, _ in f.edges(ub)):
            span.append((ub, 0, None))        # the use sits in a loop that does not pass the definition again
    for bid, a, b in span:
        el = f.blocks[bid].elems
        for i in el[a:(b if b is not None else len(el))]:
            if flow.is_event(f, i) and _stores_to_local(f, i, name):
                return True
    return False


def _stable_form(f, form, d_eid, u_eid):
    for n in form[0]:
        if n.isidentifier() and changed_between(f, n, d_eid, u_eid):
            return False
    return True


def _reach_back(f, target, avoid=()):
    seen = set()
    st = [target]
    while st:
        n = st.pop()
        if n in seen or n in avoid:
            continue
        seen.add(n)
        st.extend(f.blocks[n].preds)
    return seen


def _add(a, b, sign=1):
    c = dict(a[0])
    for k, v in b[0].items():
        c[k] = c.get(k, 0) + sign * v
        if c[k] == 0:
            del c[k]
    return (c, a[1] + sign * b[1])


def _name(f, j):
    e = f.exprs[j]
    if e["k"] == "ref":
        return e["name"]
    p = ex.path(f, j)
    return p


def exact(f, node, at, stop=(), depth=0):
    """A single linear form equal to the value, or None."""
    j = ex.skip(f, node)
    e = f.exprs[j]
    while e["k"] == "cast":
        j = ex.skip(f, e["c"][0])
        e = f.exprs[j]
    v = ex.const(f, j)
    if v is not None:
        return ({}, v)
    if depth > 10:
        return None
    if e["k"] == "bin" and e["op"] in ("+", "-"):
        a = exact(f, e["c"][0], at, stop, depth + 1)
        b = exact(f, e["c"][1], at, stop, depth + 1)
        if a is None or b is None:
            return None
        return _add(a, b, 1 if e["op"] == "+" else -1)
    if e["k"] == "ref" and e.get("dk") in ("local", "param") and e["name"] not in stop:
        rd = reaching_def(f, e["name"], at)
        if rd is not None and rd[1] == "=" and rd[2] is not None:
            r = exact(f, rd[2], rd[0], stop, depth + 1)
            if r is not None and _stable_form(f, r, rd[0], at):
                return r
        return ({e["name"]: 1}, 0)
    n = _name(f, j)
    if n is not None:
        return ({n: 1}, 0)
    # any other side-effect free expression (a product, a quotient): an opaque term named by its text; identical
    # expressions are the same term
    if e["k"] in ("bin", "un", "cast") and not any(f.exprs[x]["k"] in ("asg", "call") or
                                                   (f.exprs[x]["k"] == "un" and f.exprs[x].get("op") in ("++", "--"))
                                                   for x in ex.walk(f, j)):
        nm = "<%s>" % ex.pretty(f, j)
        f._cache.setdefault("lin_opaque", {})[nm] = j
        return ({nm: 1}, 0)
    return None


def _min_arms(f, j):
    """(a, b) when node j is `a < b ? a : b` (either orientation), else None."""
    e = f.exprs[j]
    if e["k"] != "cond":
        return None
    c, x, y = e["c"]
    ce = f.exprs[ex.skip(f, c)]
    if ce["k"] != "bin" or ce["op"] not in ("<", "<=", ">", ">="):
        return None
    l, r = ce["c"]
    pl, pr, px, py = ex.pretty(f, ex.skip(f, l)), ex.pretty(f, ex.skip(f, r)), ex.pretty(f, ex.skip(f, x)), ex.pretty(f, ex.skip(f, y))
    if ce["op"] in ("<", "<="):
        if (pl, pr) == (px, py):
            return x, y
    else:
        if (pl, pr) == (py, px):
            return x, y
    return None


def upper_bounds(f, node, at, stop=(), depth=0):
    """Linear forms U with value(node) <= U."""
    j = ex.skip(f, node)
    e = f.exprs[j]
    while e["k"] == "cast":
        j = ex.skip(f, e["c"][0])
        e = f.exprs[j]
    v = ex.const(f, j)
    if v is not None:
        return [({}, v)]
    if depth > 10:
        return []
    if e["k"] == "stmtexpr" and e.get("c"):
        return upper_bounds(f, e["c"][0], at, stop, depth + 1)
    arms = _min_arms(f, j)
    if arms:
        return (upper_bounds(f, arms[0], at, stop, depth + 1) + upper_bounds(f, arms[1], at, stop, depth + 1))[:MAX_FORMS]
    if e["k"] == "bin" and e["op"] == "+":
        out = []
        for a in upper_bounds(f, e["c"][0], at, stop, depth + 1):
            for b in upper_bounds(f, e["c"][1], at, stop, depth + 1):
                out.append(_add(a, b))
        return out[:MAX_FORMS]
    if e["k"] == "bin" and e["op"] == "-":
        b = exact(f, e["c"][1], at, stop, depth + 1)
        if b is None:
            return []
        return [_add(a, b, -1) for a in upper_bounds(f, e["c"][0], at, stop, depth + 1)][:MAX_FORMS]
    if e["k"] == "ref" and e.get("dk") in ("local", "param") and e["name"] not in stop:
        rd = reaching_def(f, e["name"], at)
        if rd is not None and rd[1] == "=" and rd[2] is not None:
            r = [x for x in upper_bounds(f, rd[2], rd[0], stop, depth + 1) if _stable_form(f, x, rd[0], at)]
            if r:
                return r
        if rd is None:
            cl = _clamp(f, e["name"], at)
            if cl is not None:
                r = [x for x in upper_bounds(f, cl[1], cl[0], stop, depth + 1) if _stable_form(f, x, cl[0], at)]
                if r:
                    return r + [({e["name"]: 1}, 0)]
        return [({e["name"]: 1}, 0)]
    n = _name(f, j)
    if n is not None:
        return [({n: 1}, 0)]
    return []


def _clamp(f, name, at):
    """`if (x > E) x = E;` in front of event `at` (the written-out MIN): (store event, E node) when the store sits in a
    block entered only on the edge `x > E`, that block and the other edge meet again, and x is not stored to between the
    store and `at`.  After the join x <= E holds on both paths."""
    from . import atoms
    pos = flow.elem_pos(f)
    if at not in pos:
        return None
    for bid, i in flow.all_events(f):
        st = _stores_to_local(f, i, name)
        if not st or st[0] != "=" or st[1] is None:
            continue
        blk = f.blocks[bid]
        if len(blk.preds) != 1:
            continue
        p = blk.preds[0]
        edges = f.edges(p)
        if len(edges) != 2:
            continue
        lab = [l for s2, l in edges if s2 == bid]
        other = [s2 for s2, l in edges if s2 != bid]
        if not lab or not other or lab[0] not in ("T", "F"):
            continue
        want = ex.pretty(f, ex.skip(f, st[1]))
        ok = False
        for a in atoms.edge_atoms(f, p, lab[0]):
            if a.R is None:
                continue
            if a.rel in (">", ">=") and a.L.locals == {name} and not a.L.fields and a.R.text == want:
                ok = True
            if a.rel in ("<", "<=") and a.R.locals == {name} and not a.R.fields and a.L.text == want:
                ok = True
        if not ok:
            continue
        succs = [s2 for s2, _ in f.edges(bid)]
        if len(succs) != 1 or succs[0] != other[0]:
            continue
        if pos[at][0] not in flow.reach_from(f, succs[0]) or changed_between(f, name, i, at):
            continue
        return i, st[1]
    return None


def fmt(form):
    parts = []
    for k, v in sorted(form[0].items()):
        parts.append(("%s%s" % ("" if v == 1 else "-" if v == -1 else "%d*" % v, k)))
    if form[1] or not parts:
        parts.append(str(form[1]))
    return " + ".join(parts).replace("+ -", "- ")
