"""Program model: loads the per-unit fact files produced by tools/zvbi-facts.

Everything here is a view of the resolved, macro-expanded, type-checked
program; positions are kept for messages only.
"""
import hashlib
import json
import os
import subprocess
import sys
from concurrent.futures import ThreadPoolExecutor

from . import compdb

VERIF = os.path.dirname(os.path.dirname(os.path.abspath(__file__)))
TOOL = os.path.join(VERIF, "tools", "zvbi-facts")
CACHE = os.environ.get("ZSA_CACHE") or os.path.join(VERIF, ".cache", "facts")


class AnalysisBroken(Exception):
    """The analysis itself cannot be trusted (exit code 2)."""


# --------------------------------------------------------------------------
# extraction

def _headers_digest():
    h = hashlib.sha1()
    repo = compdb.REPO
    names = []
    for d in ("", "src", "daemon", "src/dvb"):
        p = os.path.join(repo, d)
        if not os.path.isdir(p):
            continue
        for n in sorted(os.listdir(p)):
            if n.endswith((".h", ".xbm")):
                names.append(os.path.join(p, n))
    for n in names:
        h.update(n.encode())
        try:
            h.update(open(n, "rb").read())
        except OSError:
            pass
    st = os.stat(TOOL)
    h.update(("%d %d" % (st.st_size, st.st_mtime_ns)).encode())
    return h.hexdigest()


def _extract_one(unit, hdig, extra_flags=(), src_override=None, root=None):
    src = src_override or os.path.join(compdb.REPO, unit)
    fl = compdb.flags(unit) + list(extra_flags)
    h = hashlib.sha1()
    h.update(hdig.encode())
    h.update(src.encode())
    h.update(open(src, "rb").read())
    h.update(" ".join(fl).encode())
    h.update((root or "").encode())
    out = os.path.join(CACHE, h.hexdigest() + ".json")
    d = None
    for attempt in range(3):
        if not os.path.exists(out):
            os.makedirs(CACHE, exist_ok=True)
            tmp = out + ".tmp%d.%d" % (os.getpid(), attempt)
            cmd = [TOOL, "--out=" + tmp, "--root=" + (root or compdb.REPO), src, "--"] + fl
            r = subprocess.run(cmd, stdout=subprocess.PIPE, stderr=subprocess.PIPE, timeout=300)
            if r.returncode != 0 or not os.path.exists(tmp):
                raise AnalysisBroken("unit %s does not parse: %s" % (unit, r.stderr.decode(errors="replace")[-2000:]))
            os.replace(tmp, out)
        try:
            with open(out) as fh:
                d = json.load(fh)
            break
        except (OSError, ValueError):
            # another check running at the same time pruned the cache (or the file is half written): extract again
            try:
                os.unlink(out)
            except OSError:
                pass
    if d is None:
        raise AnalysisBroken("fact file for %s could not be read" % unit)
    d["unit"] = unit
    return d


def extract(units=None, jobs=16, overrides=None):
    """Extract facts for the given units (default: all built units)."""
    if not os.path.exists(TOOL):
        raise AnalysisBroken("fact extractor not built: run `make -C %s/tools`" % VERIF)
    try:
        all_units = compdb.units()
    except compdb.BuildError as e:
        raise AnalysisBroken(str(e))
    if units is None:
        units = all_units
    overrides = overrides or {}
    hdig = _headers_digest()
    with ThreadPoolExecutor(max_workers=jobs) as ex:
        futs = [ex.submit(_extract_one, u, hdig, (), overrides.get(u)) for u in units]
        res = [f.result() for f in futs]
    _prune_cache()
    return res


def _prune_cache(limit=400):
    try:
        names = [os.path.join(CACHE, n) for n in os.listdir(CACHE)]
        if len(names) <= limit:
            return
        import time
        now = time.time()
        # never a file another check may be about to read: only files that have not been touched for an hour
        aged = []
        for n in names:
            try:
                m = os.stat(n).st_mtime
            except OSError:
                continue
            if now - m > 3600:
                aged.append((m, n))
        aged.sort()
        for m, n in aged[:max(0, len(names) - limit)]:
            try:
                os.unlink(n)
            except OSError:
                pass
    except OSError:
        pass


# --------------------------------------------------------------------------
# model

class Block:
    __slots__ = ("id", "elems", "term", "label", "noret", "succs", "preds")

    def __init__(self, d):
        self.id = d["id"]
        self.elems = d["elems"]
        self.term = d.get("term")
        self.label = d.get("label")
        self.noret = bool(d.get("noret"))
        self.succs = [s for s in d["succs"]]
        self.preds = []


class Func:
    def __init__(self, d, unit):
        self.unit = unit
        self.name = d["name"]
        self.file = d["file"]
        self.line = d["line"]
        self.endline = d["endline"]
        self.static = bool(d["static"])
        self.inline = bool(d["inline"])
        self.params = d["params"]
        self.ret = d["ret"]
        self.variadic = bool(d.get("variadic"))
        self.exprs = d["exprs"]
        self.blocks = {b["id"]: Block(b) for b in d["blocks"]}
        self.entry = d.get("entry")
        self.exit = d.get("exit")
        self.cfg_failed = bool(d.get("cfg_failed"))
        self.inlined = list(d.get("inlined", []))      # helpers normalize.py spliced in (N3)
        # `if (A && B)`: the block that ends in the IfStmt evaluates only B (it
        # is reached with A true), so on its edges the whole condition is
        # equivalent to its rightmost operand.  Narrow it once, here; the
        # operands to the left are branch conditions of dominating blocks.
        for b in self.blocks.values():
            t = b.term
            if t and "cond" in t:
                c = t["cond"]
                for _ in range(32):
                    e = self.exprs[c]
                    if e["k"] in ("cast",) and e.get("ck") in ("LValueToRValue", "NoOp", "IntegralToBoolean") and \
                            self.exprs[e["c"][0]]["k"] == "bin" and self.exprs[e["c"][0]].get("op") in ("&&", "||"):
                        c = e["c"][0]
                        continue
                    if e["k"] == "bin" and e.get("op") in ("&&", "||"):
                        c = e["c"][1]
                        continue
                    break
                if c != t["cond"]:
                    t["cond_full"] = t["cond"]
                    t["cond"] = c
        for b in self.blocks.values():
            if b.noret:
                b.succs = []
            for s in b.succs:
                if s is not None and s in self.blocks:
                    self.blocks[s].preds.append(b.id)
        self._cache = {}

    @property
    def key(self):
        return (self.unit, self.name) if self.static else self.name

    def __repr__(self):
        return "<Func %s %s:%d>" % (self.name, self.file, self.line)

    def E(self, i):
        return self.exprs[i]

    # ---- CFG edges ------------------------------------------------------
    def edges(self, bid):
        """Yield (succ_id, label) for block bid.  label is 'T', 'F',
        ('case', lo, hi), 'default' or None (unconditional)."""
        b = self.blocks[bid]
        t = b.term
        out = []
        if not b.succs:
            return out
        if t is None or t["kind"] in ("GotoStmt", "BreakStmt", "ContinueStmt", "IndirectGotoStmt", "GCCAsmStmt"):
            return [(s, None) for s in b.succs if s is not None]
        if t["kind"] == "SwitchStmt":
            for s in b.succs:
                if s is None:
                    continue
                lab = self.blocks[s].label or {}
                if "case" in lab:
                    out.append((s, ("case", lab["case"][0], lab["case"][1])))
                else:
                    # default label, or the implicit default (switch exit)
                    out.append((s, "default"))
            return out
        if "cond" in t and len(b.succs) == 2:
            # a condition that clang folds to a constant (`if (SKIP_DUMMY_BYTES)`,
            # `while (0)`) has only one feasible edge
            cv = self.exprs[t["cond"]].get("v") if t["kind"] in ("IfStmt", "WhileStmt", "DoStmt", "ForStmt", "ConditionalOperator") else None
            if b.succs[0] is not None and not (cv is not None and cv == 0):
                out.append((b.succs[0], "T"))
            if b.succs[1] is not None and not (cv is not None and cv != 0):
                out.append((b.succs[1], "F"))
            return out
        return [(s, None) for s in b.succs if s is not None]

    def switch_cases(self, bid):
        """All (lo, hi) case ranges of the switch terminating block bid."""
        res = []
        for s, lab in self.edges(bid):
            if isinstance(lab, tuple):
                res.append((lab[1], lab[2]))
        return res

    def rpo(self):
        if "rpo" in self._cache:
            return self._cache["rpo"]
        seen = set()
        order = []
        stack = [(self.entry, iter([s for s, _ in self.edges(self.entry)]))]
        seen.add(self.entry)
        while stack:
            n, it = stack[-1]
            adv = False
            for s in it:
                if s not in seen:
                    seen.add(s)
                    stack.append((s, iter([x for x, _ in self.edges(s)])))
                    adv = True
                    break
            if not adv:
                order.append(n)
                stack.pop()
        order.reverse()
        self._cache["rpo"] = order
        return order

    def reachable_blocks(self):
        return set(self.rpo())


class Program:
    def __init__(self, unit_facts):
        self.units = [u["unit"] for u in unit_facts]
        self.funcs = []            # all Func
        self.by_name = {}          # name -> [Func]
        self.records = {}
        self.enums = {}
        self.enum_consts = {}
        self.globals = {}          # name -> [global dict]
        seen_hdr = {}
        for u in unit_facts:
            for fd in u["functions"]:
                f = Func(fd, u["unit"])
                k = (f.file, f.line, f.name)
                if k in seen_hdr and f.file != u["unit"]:
                    continue       # header inline function already loaded
                seen_hdr[k] = f
                self.funcs.append(f)
                self.by_name.setdefault(f.name, []).append(f)
            for r in u["records"]:
                if r["name"] not in self.records or "fields" in r:
                    self.records[r["name"]] = r
            for e in u["enums"]:
                self.enums[e["name"]] = e
                for k, v in e["enumerators"].items():
                    self.enum_consts[k] = v
            for g in u["globals"]:
                g["unit"] = u["unit"]
                self.globals.setdefault(g["name"], []).append(g)
        self.n_blocks = sum(len(f.blocks) for f in self.funcs)

    def func(self, name, unit=None):
        """Resolve a function by name (and unit for statics)."""
        c = self.by_name.get(name, [])
        if unit is not None:
            same = [f for f in c if f.unit == unit or f.file == unit]
            if same:
                return same[0]
            nonstatic = [f for f in c if not f.static or f.file.endswith(".h")]
            if nonstatic:
                return nonstatic[0]
            return None
        if len(c) == 1:
            return c[0]
        if not c:
            return None
        nonstatic = [f for f in c if not f.static]
        if len(nonstatic) == 1:
            return nonstatic[0]
        raise AnalysisBroken("ambiguous function name %s: %s" % (name, c))

    def need(self, name, unit=None):
        f = self.func(name, unit)
        if f is None:
            raise AnalysisBroken("anchor vanished: function %s%s" % (name, " in " + unit if unit else ""))
        if f.cfg_failed:
            raise AnalysisBroken("no CFG for %s" % name)
        return f

    def callee(self, caller, e):
        """Resolve the callee Func of a call node (None if external/indirect)."""
        n = e.get("callee")
        if not n:
            return None
        return self.func_for(caller, n)

    def func_for(self, caller, name):
        c = self.by_name.get(name, [])
        if not c:
            return None
        for f in c:
            if f.unit == caller.unit:
                return f
        for f in c:
            if not f.static or f.file.endswith(".h"):
                return f
        return None

    def record(self, name):
        return self.records.get(name)

    def field(self, rec, name):
        r = self.records.get(rec)
        if not r:
            return None
        for fl in r.get("fields", []):
            if fl["name"] == name:
                return fl
        return None


def load(units=None, overrides=None):
    from . import normalize
    facts = extract(units, overrides=overrides)
    log = normalize.apply(facts)
    P = Program(facts)
    P.normalized = log.items
    return P
