"""Expression helpers over the fact tables (function f, node id i)."""

TRANSPARENT_CASTS = ("LValueToRValue", "NoOp", "ArrayToPointerDecay",
                     "FunctionToPointerDecay", "BitCast", "NullToPointer",
                     "AtomicToNonAtomic", "NonAtomicToAtomic")


def skip(f, i):
    """Skip value-preserving wrappers: lvalue-to-rvalue, no-op and pointer
    casts, GNU statement expressions (to their value), __extension__,
    __builtin_expect."""
    while i is not None and i >= 0:
        e = f.exprs[i]
        k = e["k"]
        if k == "cast" and e["ck"] in TRANSPARENT_CASTS:
            i = e["c"][0]
        elif k == "cast" and e["ck"] == "IntegralCast" and e.get("impl") and \
                _same_or_wider(f, e):
            i = e["c"][0]
        elif k == "stmtexpr" and e.get("c"):
            i = e["c"][0]
        elif k == "opaque" and e.get("c"):
            i = e["c"][0]
        elif k == "un" and e["op"] in ("__extension__", "+"):
            i = e["c"][0]
        elif k == "call" and e.get("callee") == "__builtin_expect":
            i = e["c"][0]
        elif k == "cast" and e["ck"] == "IntegralCast" and _is_builtin_expect_arg(f, e):
            i = e["c"][0]
        else:
            return i
    return i


def _is_builtin_expect_arg(f, e):
    return False


def _same_or_wider(f, e):
    """An implicit integral cast that cannot change the value."""
    src = f.exprs[e["c"][0]]
    a, b = src.get("it"), e.get("it")
    if not a or not b:
        return False
    if a[1] == b[1]:
        return b[0] >= a[0]
    if a[1] == 0 and b[1] == 1:
        return b[0] > a[0]
    return False


def const(f, i):
    if i is None or i < 0:
        return None
    e = f.exprs[i]
    if "v" in e:
        return e["v"]
    j = skip(f, i)
    if j != i:
        return f.exprs[j].get("v")
    return None


def kids(f, i):
    return f.exprs[i].get("c", [])


def walk(f, i, into_uneval=False):
    """Pre-order ids of the expression tree rooted at i."""
    stack = [i]
    seen = set()
    while stack:
        n = stack.pop()
        if n is None or n < 0 or n in seen:
            continue
        seen.add(n)
        yield n
        e = f.exprs[n]
        c = list(e.get("c", []))
        if "fn" in e:
            c.append(e["fn"])
        if e["k"] == "decl":
            for v in e.get("vars", []):
                if "init" in v:
                    c.append(v["init"])
        stack.extend(reversed(c))


def path(f, i):
    """Canonical access path of an lvalue-ish expression, or None.
    Array indices are rendered as their constant, their own path, or '*'."""
    i = skip(f, i)
    if i is None or i < 0:
        return None
    e = f.exprs[i]
    k = e["k"]
    if k == "ref":
        return e["name"]
    if k == "mem":
        b = path(f, e["c"][0])
        if b is None:
            return None
        if e.get("arrow"):
            if b.startswith("&"):
                return _par(b[1:]) + "." + e["member"]
            return _par(b) + "->" + e["member"]
        if b.startswith("*"):
            return _par(b[1:]) + "->" + e["member"]
        return _par(b) + "." + e["member"]
    if k == "idx":
        b = path(f, e["c"][0])
        if b is None:
            return None
        ix = e["c"][1]
        v = const(f, ix)
        if v is not None:
            return "%s[%d]" % (_par(b), v)
        p = path(f, ix)
        return "%s[%s]" % (_par(b), p if p is not None else "*")
    if k == "un" and e["op"] == "*":
        b = path(f, e["c"][0])
        if b is None:
            return None
        if b.startswith("&"):
            return b[1:]
        return "*" + b
    if k == "un" and e["op"] == "&":
        b = path(f, e["c"][0])
        if b is None:
            return None
        if b.startswith("*"):
            return b[1:]
        return "&" + b
    if k == "cast":
        return path(f, e["c"][0])
    return None


def _par(p):
    if p.startswith(("*", "&")):
        return "(" + p + ")"
    return p


def root(f, i):
    """The ref node at the root of an access path (or None)."""
    i = skip(f, i)
    while i is not None and i >= 0:
        e = f.exprs[i]
        k = e["k"]
        if k == "ref":
            return i
        if k in ("mem", "idx", "cast") or (k == "un" and e["op"] in ("*", "&")):
            i = skip(f, e["c"][0])
            continue
        return None
    return None


def is_local_path(f, i):
    """True when the path is a plain local variable or parameter."""
    i = skip(f, i)
    e = f.exprs[i]
    return e["k"] == "ref" and e.get("dk") in ("local", "param")


BINP = {"*": 12, "/": 12, "%": 12, "+": 11, "-": 11, "<<": 10, ">>": 10,
        "<": 9, "<=": 9, ">": 9, ">=": 9, "==": 8, "!=": 8, "&": 7, "^": 6,
        "|": 5, "&&": 4, "||": 3, ",": 1}


def pretty(f, i, depth=0):
    """C-like rendering for messages and for structural comparison."""
    if i is None or i < 0:
        return "?"
    if depth > 40:
        return "..."
    e = f.exprs[i]
    k = e["k"]
    if k == "int":
        return str(e.get("v", "?"))
    if k == "str":
        return '"%s"' % e.get("s", "...")
    if k == "ref":
        return e["name"]
    if k == "mem":
        return "%s%s%s" % (pretty(f, e["c"][0], depth + 1), "->" if e.get("arrow") else ".", e["member"])
    if k == "idx":
        return "%s[%s]" % (pretty(f, e["c"][0], depth + 1), pretty(f, e["c"][1], depth + 1))
    if k == "un":
        if e["op"] == "__extension__":
            return pretty(f, e["c"][0], depth + 1)
        if e.get("post"):
            return "%s%s" % (pretty(f, e["c"][0], depth + 1), e["op"])
        return "%s%s" % (e["op"], pretty(f, e["c"][0], depth + 1))
    if k in ("bin", "asg"):
        return "(%s %s %s)" % (pretty(f, e["c"][0], depth + 1), e["op"], pretty(f, e["c"][1], depth + 1))
    if k == "cond":
        return "(%s ? %s : %s)" % tuple(pretty(f, c, depth + 1) for c in e["c"])
    if k == "call":
        n = e.get("callee") or ("(*%s)" % pretty(f, e["fn"], depth + 1))
        return "%s (%s)" % (n, ", ".join(pretty(f, c, depth + 1) for c in e.get("c", [])))
    if k == "cast":
        if e.get("impl") or e["ck"] in TRANSPARENT_CASTS:
            return pretty(f, e["c"][0], depth + 1)
        return "(%s) %s" % (e["t"], pretty(f, e["c"][0], depth + 1))
    if k == "sizeof":
        return str(e.get("v", "sizeof(?)"))
    if k == "stmtexpr":
        return "({%s})" % (pretty(f, e["c"][0], depth + 1) if e.get("c") else "")
    if k == "opaque":
        return pretty(f, e["c"][0], depth + 1) if e.get("c") else "?"
    if k == "ret":
        return "return %s" % (pretty(f, e["c"][0], depth + 1) if e.get("c") else "")
    if k == "decl":
        return "; ".join("%s %s%s" % (v["t"], v["name"], (" = " + pretty(f, v["init"], depth + 1)) if "init" in v else "")
                         for v in e.get("vars", []))
    if k == "initlist":
        return "{...}"
    return "<%s>" % k


def loc(f, i):
    return "%s:%d" % (f.file, f.exprs[i]["line"])


def is_null(f, i):
    """NULL / 0 constant."""
    j = skip(f, i)
    e = f.exprs[j]
    if e.get("v") == 0:
        return True
    if e["k"] == "cast":
        return is_null(f, e["c"][0])
    return False


def call_name(f, i):
    e = f.exprs[i]
    return e.get("callee") if e["k"] == "call" else None


def calls_in(f, i):
    for n in walk(f, i):
        if f.exprs[n]["k"] == "call":
            yield n
