#!/usr/bin/env python3
"""usage: merge_benign_matrix.py <matrix output files, later ones override earlier ones>  -> benign/MATRIX.txt on stdout
Each input is the output of tools/benign_matrix.sh; an edit's block is everything from its first `<id>:` line to the next edit."""
import re, subprocess, sys
blocks, order = {}, []
for fn in sys.argv[1:]:
    cur = None
    seen_here = set()
    for l in open(fn, errors="replace"):
        m = re.match(r"(C\d\d_b\d+): ", l)
        if m:
            cur = m.group(1)
            if cur not in seen_here:
                blocks[cur] = []
                seen_here.add(cur)
                if cur not in order:
                    order.append(cur)
        if cur is not None and not l.startswith("WARNING conda"):
            blocks[cur].append(l.rstrip()[:260])
def key(x):
    a, b = x.split("_b")
    return (a, int(b))
ids = sorted(blocks, key=key)
quiet = [i for i in ids if any("all quiet" in l for l in blocks[i])]
ex1 = [i for i in ids if any(re.search(r"exit=1", l) for l in blocks[i])]
ex2 = [i for i in ids if i not in quiet and i not in ex1]
head = subprocess.check_output(["git", "-C", "/verif", "rev-parse", "--short", "HEAD"]).decode().strip()
repo = subprocess.check_output(["git", "-C", "/repo", "rev-parse", "--short", "HEAD"]).decode().strip()
print("# behaviour-preserving edits vs. all 17 checks (tools/benign_matrix.sh; engine %s, /repo %s)" % (head, repo))
print("# %d edits: %d quiet on every check, %d with a false VIOLATION (exit 1), %d with an analysis-broken check only (exit 2)"
      % (len(ids), len(quiet), len(ex1), len(ex2)))
if ex1:
    print("# false VIOLATION: " + ", ".join(ex1))
print("# analysis-broken: " + ", ".join(ex2))
print()
for i in ids:
    for l in blocks[i]:
        print(l)
