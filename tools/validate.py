#!/usr/bin/env python3
"""Validates MANIFEST.json and every evidence file against the schemas (uses
the tooling venv's jsonschema: run with python3-vt)."""
import json, sys, glob, jsonschema
m = json.load(open('/verif/MANIFEST.json'))
jsonschema.validate(m, json.load(open('/root/.vp/MANIFEST.schema.json')))
es = json.load(open('/root/.vp/EVIDENCE.schema.json'))
for c in m['checks']:
    p = '/verif/' + c['evidence_file']
    try:
        jsonschema.validate(json.load(open(p)), es)
    except Exception as e:
        print('BAD', p, str(e)[:300]); sys.exit(1)
print('manifest + %d evidence files valid' % len(m['checks']))
