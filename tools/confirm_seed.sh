#!/bin/sh
# usage: tools/confirm_seed.sh <dir with patch.diff run.sh ...> <seed id>
# Confirms a seeded change in a scratch copy of /repo (outside /repo and /verif):
#   pristine: demo passes;  with patch: builds, `make check` passes, demo fails.
# On success copies the seed to /verif/seeded/<id>/ and records what was run.
set -u
src="$1"; id="$2"
wt=/tmp/zconf_$id.$$
log=/tmp/zconf_$id.$$.log
rm -rf "$wt"; cp -a /repo "$wt" || exit 2
git -C "$wt" checkout -q -- . 2>/dev/null
res() { echo "$1"; }
( cd "$wt" && make -j8 >/dev/null 2>&1 ) || { echo "$id: pristine build failed"; rm -rf "$wt"; exit 2; }
( cd "$src" && timeout 600 sh run.sh "$wt" ) >"$log.pre" 2>&1; pre=$?
git -C "$wt" apply "$src/patch.diff" || { echo "$id: patch does not apply"; rm -rf "$wt" "$log"*; exit 2; }
( cd "$wt" && make -j8 >"$log.build" 2>&1 ); b=$?
( cd "$wt" && make -j8 check >"$log.check" 2>&1 ); c=$?
npass=$(grep -c "^PASS:" "$log.check"); nfail=$(grep -c "^FAIL:\|^ERROR:" "$log.check")
( cd "$src" && timeout 600 sh run.sh "$wt" ) >"$log.post" 2>&1; post=$?
echo "$id: pristine demo exit=$pre | patched build=$b check exit=$c pass=$npass fail=$nfail | patched demo exit=$post"
ok=0
if [ $pre -eq 0 ] && [ $b -eq 0 ] && [ $c -eq 0 ] && [ $nfail -eq 0 ] && [ $npass -ge 19 ] && [ $post -ne 0 ]; then
  ok=1
  d=/verif/seeded/$id; mkdir -p "$d"
  for f in "$src"/*; do case "$f" in *.o|*/demo|*/demo_bin|*.bin) ;; *) [ -f "$f" ] && [ $(stat -c %s "$f") -lt 200000 ] && file "$f" | grep -qv ELF && cp "$f" "$d/";; esac; done
  python3 - "$d" "$id" "$pre" "$post" "$npass" <<'PY'
import json,sys,os
d,id_,pre,post,npass=sys.argv[1:6]
p=os.path.join(d,'meta.json')
try: m=json.load(open(p))
except Exception: m={}
m['seed_id']=id_
m['confirmed']={'scratch_copy':'cp -a /repo /tmp/zconf_<id>; removed afterwards','pristine_demo_exit':int(pre),'patched_build':'ok',
 'patched_make_check':'%s PASS, 0 FAIL'%npass,'patched_demo_exit':int(post),'commands':['make -j8','sh run.sh <tree>','git apply patch.diff','make -j8','make -j8 check','sh run.sh <tree>']}
json.dump(m,open(p,'w'),indent=1)
PY
  tail -5 "$log.post" | cut -c1-300 > "$d/demo_output_with_change.txt"
fi
rm -rf "$wt" "$log"*
[ $ok -eq 1 ] && echo "$id: CONFIRMED -> /verif/seeded/$id" || echo "$id: NOT confirmed"
