#!/bin/sh
# usage: tools/try_seed.sh <patch.diff> <Cxx> [more ids...]
# Applies a seeded change to /repo, runs the named checks, and undoes it.
set -u
patch="$1"; shift
cd /repo || exit 2
if ! git diff --quiet; then echo "/repo is dirty"; exit 2; fi
git apply "$patch" || { echo "patch does not apply"; exit 2; }
cd /verif
rc=0
for id in "$@"; do
  ./check "$id" --tier "${TIER:-quick}" > /tmp/try_seed.$$.out 2>&1; r=$?
  echo "== $id exit=$r"; grep -A1 "^VIOLATION\|ANALYSIS-BROKEN\|KNOWN" /tmp/try_seed.$$.out | cut -c1-400 | head -${LINES_MAX:-12}
  [ $r -ne 0 ] && rc=$r
done
rm -f /tmp/try_seed.$$.out
git -C /repo checkout -- .
exit $rc
