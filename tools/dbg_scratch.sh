#!/bin/sh
# usage: tools/dbg_scratch.sh <patch.diff>  -> prints the scratch dir (sources patched); caller removes it
s=/verif/.scratch/dbg.$$
rm -rf "$s"; mkdir -p "$s"
for d in src daemon; do rsync -a --exclude='*.o' --exclude='*.lo' --exclude='*.la' --exclude='.libs' --exclude='.deps' /repo/$d "$s/"; done
cp /repo/config.h /repo/config.status /repo/site_def.h "$s/" 2>/dev/null
patch -p1 -s -f -d "$s" -i "$1" >/dev/null || { echo "patch does not apply" >&2; }
echo "$s"
