#!/bin/sh
# usage: tools/try_scratch.sh <patch.diff> <Cxx> [more ids]
# Like try_seed.sh but never touches /repo: the sources are copied to /verif/.scratch, patched
# there, and the checks run with ZVBI_REPO pointing at the copy.
patch="$1"; shift
s=/verif/.scratch/try.$$
rm -rf "$s"; mkdir -p "$s"
for d in src daemon; do rsync -a --exclude='*.o' --exclude='*.lo' --exclude='*.la' --exclude='.libs' --exclude='.deps' /repo/$d "$s/"; done
cp /repo/config.h /repo/config.status /repo/site_def.h "$s/" 2>/dev/null
patch -p1 -s -f -d "$s" -i "$patch" || { echo "patch does not apply"; rm -rf "$s"; exit 2; }
cd /verif
for id in "$@"; do
  ZVBI_REPO="$s" ZSA_EVIDENCE_DIR="$s/_ev" ./check "$id" > "$s/out" 2>&1; r=$?
  echo "== $id exit=$r"; grep -a -A1 "^VIOLATION\|ANALYSIS-BROKEN" "$s/out" | grep -av "^--" | cut -c1-300 | head -${LINES_MAX:-6}
done
rm -rf "$s"
