#!/usr/bin/env python3
"""Regenerates /verif/MANIFEST.json from the table below (kept next to the
checks so that the manifest can never name a check that does not exist)."""
import importlib
import json
import os
import sys

HERE = os.path.dirname(os.path.dirname(os.path.abspath(__file__)))
sys.path.insert(0, HERE)

ALL = ["C%02d" % i for i in range(1, 21)]

# property -> (technique, design section)
TECH = {
    "C01": "RF-IVL interval abstract interpretation (loop unrolling, value partitioning, widening thresholds, OR-accumulated error words) of every fixed-array subscript and pointer-cursor dereference + RF-INV declared field invariants verified inductively at every writer (stores, memset/memcpy, escaping addresses, constant tables) + RF-ASSERT assertion reachability per call site + RF-SHIFT shift-amount/divisor intervals + RF-UAF freed-pointer dataflow + RF-INIT heap list-node completeness + RF-REC recursion inventory with guard dominance + RF-PAIR page/network reference typestate",
    "C03": "RF-NEG flow-sensitive decode-error taint (state stores, shifts, unexamined results; OR-accumulation aware) over every function of packet.c/teletext.c + RF-NOWRITE on the link helpers + RF-DOM header/parity-gate/X-26 error-edge dominance + RF-TAB parity-exempt mode table",
    "C05": "RF-DOM capacity-test dominance on the output cursor and slicer calls + RF-INIT per-installed-slicer field completeness and failure disarm + RF-DEP dependence closure of the CRI search limit",
    "C06": "RF-TAB data-unit tables extracted from mux and demux code and compared (id, service, payload bytes, bit order, lengths) + RF-DOM sliced-line frame boundary (edge-filtered reachability) + RF-CORR failure clears the coroutine window + RF-DOM callback after success + RF-NOWRITE refused setter leaves the multiplexer untouched + RF-WHO writers of the line-order state",
    "C07": "RF-PURE no static-state writes + RF-UNDERFLOW guarded unsigned byte accounting (dominating atom on the same operands, unassigned since) + RF-IVL lookahead capacity intervals + RF-DOM cursor/length guards + RF-CORR continuity resynchronisation (edge-filtered reachability) + RF-CORR sibling cross-check of the frame discard on the callee's return range + RF-DOM PID filter behind the transport_error_indicator test",
    "C09": "RF-IVL interval abstract interpretation of XDS buffer/table subscripts and assertion reachability with field invariants + RF-CORR current-packet invariant (typestate, must-pass-through) + RF-DOM checksum/parity/routing dominance, both implementations + RF-TAB rating-system table by value partitioning of the interval analysis over the first rating byte",
    "C10": "RF-PAIR ownership typestate for page and network references (NULL-branch correlation, out-parameter and move-on-success summaries) + RF-DOM free/recycle/evict/reuse eligibility dominance + RF-IVL victim array capacity + RF-WHO the subpage range decides control flow only where it is maintained and in the walk",
    "C11": "RF-CORR path-sensitive typestate (cursor patched or known elsewhere before every free) + RF-TYPESTATE no use of the record after the callback + RF-WHO/RF-CORR single mask writer on every path + RF-DOM Teletext gate + RF-LOCK event_mutex pairing with trylock correlation + RF-CORR event mask installed only after a complete list walk",
    "C12": "RF-NOWRITE failure leaves outputs untouched (path-sensitive typestate) + RF-NEG decode-error taint + RF-BITS bit-provenance abstract evaluation of the VPS/DVB-PDC encoders against their decoders + RF-PURE stateless codecs + RF-NEG protected packet read only through the Hamming decoders",
    "C13": "RF-DOM debounce-condition dominance (structural branch atoms) on every announcement/reset site + RF-CORR must-pass-through re-arm/clear of the debounce state + RF-CORR edge cut: the network record is wiped on every unidentified path; debounce clause also in decomposed form (counter discipline, reachability under a known counter value)",
    "C14": "RF-PAIR path-sensitive typestate (TZ change/restore) + RF-WHO who-may-call + RF-DEP save-before-set",
    "C15": "RF-DEP flags provenance + RF-INIT constructor completeness + RF-DOM CRC/Hamming dominance + RF-NEG decode-error taint (stores, shifts, unexamined results) + RF-IVL intervals with loop trip-count caps + RF-CORR tracker update + RF-PURE",
    "C16": "RF-WHO single write layer (who-may-call over the call graph of the export modules) + RF-DOM grow-before-store, grow contract, strict vsnprintf acceptance, room-before-store in the text output, unsupported pixel format reaches no drawing call",
    "C17": "RF-TAB return-code/metacharacter table agreement + RF-IVL capacity + RF-DOM the page walk starts inside its start page + RF-WHO the walk steps every subpage + RF-INIT both resume positions stored on every path of highlight()",
    "C18": "RF-LOCK context-sensitive lockset over main loop and acquisition thread (queue_mutex, clnt_mutex), lock pairing and order + RF-DOM service filter / free-at-zero / subscriber dominance + RF-CORR mask rebuild + RF-PAIR drain-on-close",
    "C19": "RF-TAB message-type exhaustiveness and validated-length vs. read-member agreement + RF-TAINT/RF-IVL client fields to index/length/assert sinks (interval analysis, pointer-arithmetic subscripts) + RF-STATE token transitions with a path-sensitive grant-site typestate + RF-DOM error-closes and drain-before-update + RF-DOM the forced release of the head frame depends only on the client's cursor",
    "C20": "RF-LOCK context-sensitive must-lockset (path-sensitive typestate, caller lockset as context) over the documented cross-thread entry points + lock pairing on all paths + callbacks-without-locks + lock-order acyclicity",
}

NA_REASON = {
    "C02": "Equality of fetched page content/attributes/links with the transmission over all packet interleavings is a function of runtime values; no clause has its truth in the shape of the code that is not already claimed under C01/C03/C10 (DESIGN.md section 7).",
    "C04": "Bit-exact signal recovery over a continuous space of sampling rates/offsets is numerical; static analysis (no solver, no execution) cannot bound it and its only structural companions are already exercised by test-raw_decoder (DESIGN.md section 7).",
    "C08": "Equality of caption display memory with an EIA-608 reference model over all command histories is a semantic equivalence, not a shape; its memory-safety and locking shadows are covered under C01 and C20 (DESIGN.md section 7).",
}
PENDING = "not claimed: no static check for this property is registered (see DESIGN.md section 5 for the clause a static rule could decide)"


def main():
    checks = []
    na = []
    claimed = []
    for pid in ALL:
        path = os.path.join(HERE, "zsa", "props", pid + ".py")
        if not os.path.exists(path):
            na.append({"property_id": pid, "reason": NA_REASON.get(pid, PENDING)})
            continue
        mod = importlib.import_module("zsa.props." + pid)
        claimed.append(pid)
        checks.append({
            "property_id": pid,
            "quick_cmd": "./check %s --tier quick" % pid,
            "thorough_cmd": "./check %s --tier thorough" % pid,
            "evidence_file": "evidence/%s.json" % pid,
            "replay_cmd_template": "./check %s --replay {path}" % pid,
            "engine": "zsa",
            "level_claimed": {
                "category": "other",
                "text": "Static analysis (no execution, no solver) over clang's type-checked AST and per-function CFG of /repo's "
                        "current source. Decides exactly this structural clause, a necessary condition of the property, on every "
                        "path of the code: " + mod.CLAUSE + " It does not decide: " + mod.NOT_DECIDED,
                "design_ref": "DESIGN.md section 5 (%s), rule families section 4" % pid,
            },
            "level_note": "Trusted: clang 14 front end (parsing, CFG construction, constant folding), the fact extractor "
                          "tools/zvbi-facts.cc, the python rule engine zsa/, the frozen instance tables in zsa/props/%s.py "
                          "(each confirmed by reading the code), libc semantics. A vanished anchor or an instance count below "
                          "its floor exits 2 (analysis broken), never 0." % pid,
            "technique": "static analysis: " + TECH[pid],
        })
    m = {
        "version": 1,
        "setup_cmd": "make -C /verif/tools",
        "hooks": {
            "guard": "ZVBI_VERIF",
            "enable": "not used: the checkers read the unmodified source; no hook exists in /repo",
            "baseline_off_cmd": "make -C /repo check",
            "source_commits": [],
            "add_only": True,
        },
        "engines": [{
            "name": "zsa",
            "path": "/verif/zsa",
            "serves_properties": claimed,
            "kind_free_text": "custom static analyser: libTooling (clang 14) fact extractor tools/zvbi-facts.cc + python3 rule "
                              "engine (CFG dominance, interval abstract interpretation, path-sensitive typestate, lockset, "
                              "taint, table agreement)",
        }],
        "checks": checks,
        "not_applicable": na,
        "notes": "Every check re-extracts facts from /repo's working tree on each run (content-hashed cache under /verif/.cache). "
                 "Exit 0 holds / 1 VIOLATION / 2 analysis broken. known_findings.json lists recorded genuine defects.",
    }
    with open(os.path.join(HERE, "MANIFEST.json"), "w") as fh:
        json.dump(m, fh, indent=1)
    print("claimed:", " ".join(claimed))
    print("not applicable / unclaimed:", " ".join(x["property_id"] for x in na))


if __name__ == "__main__":
    main()
