#!/bin/sh
# Runs every confirmed seeded change against the checks of its own property
# (and any further check ids given as arguments) and prints a matrix line per seed.
# usage: tools/all_seeds.sh [extra check ids...]
cd /verif
for d in seeded/*/; do
  id=$(basename "$d"); prop=${id%_*}
  checks="$prop $*"
  line="$id:"
  if ! git -C /repo diff --quiet; then echo "/repo dirty"; exit 2; fi
  if ! git -C /repo apply "/verif/$d/patch.diff" 2>/dev/null; then echo "$id: patch does not apply"; continue; fi
  for c in $checks; do
    [ -f zsa/props/$c.py ] || { line="$line $c=n/a"; continue; }
    ./check $c > /tmp/all_seeds.out 2>&1; r=$?
    k=$(grep -A1 "^VIOLATION" /tmp/all_seeds.out | grep -v "^VIOLATION\|^--" | head -1 | sed 's/^ *//' | cut -c1-90)
    line="$line $c=exit$r [$k]"
  done
  git -C /repo checkout -- .
  echo "$line"
done
rm -f /tmp/all_seeds.out
