#!/bin/sh
# usage: tools/benign_matrix.sh <dir containing */patch.diff> [ids...]   (default: all 17 claimed properties)
# False-alarm probe: every patch is a behaviour-preserving edit.  Each is applied to its own scratch copy of
# the sources under /verif/.scratch (never /repo), all checks run against it, and every non-zero exit is printed.
dir="$1"; shift
ids="${*:-C01 C03 C05 C06 C07 C09 C10 C11 C12 C13 C14 C15 C16 C17 C18 C19 C20}"
# the checks run from a snapshot of the engine, so that editing /verif meanwhile does not mix versions
snap=/verif/.scratch/snap.$$
rm -rf "$snap"; mkdir -p "$snap/tools"
rsync -a --exclude='__pycache__' /verif/check /verif/zsa /verif/selftest /verif/known_findings.json /verif/properties.jsonl "$snap/"
cp /verif/tools/zvbi-facts "$snap/tools/"
cd "$snap"
for pd in "$dir"/*/patch.diff; do
  b=$(basename $(dirname "$pd"))
  s=/verif/.scratch/b.$b.$$
  rm -rf "$s"; mkdir -p "$s"
  for d in src daemon; do rsync -a --exclude='*.o' --exclude='*.lo' --exclude='*.la' --exclude='.libs' --exclude='.deps' /repo/$d "$s/"; done
  cp /repo/config.h /repo/config.status /repo/site_def.h "$s/" 2>/dev/null
  if ! patch -p1 -s -f -d "$s" -i "$pd" >/dev/null 2>&1; then echo "$b: patch does not apply"; rm -rf "$s"; continue; fi
  echo $ids | tr ' ' '\n' | ZVBI_REPO="$s" ZSA_CACHE="$s/_cache" xargs -P16 -I{} sh -c 'ZSA_EVIDENCE_DIR="'$s'/_ev_{}" ./check {} > "'$s'/out_{}" 2>&1; echo "{} $?" > "'$s'/rc_{}"'
  bad=""
  for id in $ids; do
    r=$(cut -d' ' -f2 "$s/rc_$id")
    if [ "$r" != "0" ]; then
      bad="$bad $id=$r"
      echo "$b: $id exit=$r"; grep -a -A1 "^VIOLATION\|ANALYSIS-BROKEN" "$s/out_$id" | grep -av "^--" | cut -c1-400 | head -${LINES_MAX:-8}
    fi
  done
  [ -z "$bad" ] && echo "$b: all quiet"
  rm -rf "$s"
done
rm -rf "$snap"
