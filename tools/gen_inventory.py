#!/usr/bin/env python3
"""Writes zsa/inventory.json: the names (functions with signature and locals, record fields) of the tree
the instance tables in zsa/props/ were confirmed on.  Run it only after re-confirming the tables against
/repo's HEAD; zsa/normalize.py uses it to recognise helpers, temporaries and names that did not exist then."""
import json, os, sys
sys.path.insert(0, os.path.dirname(os.path.dirname(os.path.abspath(__file__))))
from zsa import prog, normalize
facts = prog.extract(None)
inv = normalize.make_inventory(facts)
# subscript sites (function -> canonical keys) known when the trusted tables were confirmed
from zsa import ivl, sweep
P = prog.Program(facts)
subs = {}
for f in P.funcs:
    ks = sorted({sweep.canon(f, node) for node, cnt, base in ivl.subscripts(f)})
    if ks:
        subs.setdefault(f.file, {})[f.name] = ks
inv["subscripts"] = subs
import subprocess
try:
    inv["repo_head"] = subprocess.run(["git", "-C", "/repo", "rev-parse", "HEAD"], capture_output=True, text=True).stdout.strip()
except Exception:
    pass
json.dump(inv, open(normalize.INVENTORY, "w"), indent=0, sort_keys=True)
print("functions:", sum(len(v) for v in inv["functions"].values()), "records:", len(inv["records"]))
