#!/bin/sh
# Like all_seeds.sh but never touches /repo: every seed is applied to its own scratch copy of the
# sources under /verif/.scratch (removed afterwards) and the checks run with ZVBI_REPO pointing at it.
# The engine itself runs from a snapshot, so /verif can be edited meanwhile.
# Runs 8 seeds in parallel.  usage: tools/all_seeds_scratch.sh [seed-id-regex] > seeded/MATRIX.txt
pat="${1:-^C[0-9][0-9]_}"
snap=/verif/.scratch/snapS.$$
rm -rf "$snap"; mkdir -p "$snap/tools"
rsync -a --exclude='__pycache__' /verif/check /verif/zsa /verif/selftest /verif/known_findings.json /verif/properties.jsonl "$snap/"
cp /verif/tools/zvbi-facts "$snap/tools/"
cd "$snap"
ls /verif/seeded | grep "^C[0-9][0-9]_" | grep -E "$pat" | xargs -P8 -I{} sh -c '
id="{}"; prop=${id%_*}
s=/verif/.scratch/m.$id.$$
rm -rf "$s"; mkdir -p "$s"
for d in src daemon; do rsync -a --exclude="*.o" --exclude="*.lo" --exclude="*.la" --exclude=".libs" --exclude=".deps" /repo/$d "$s/"; done
cp /repo/config.h /repo/config.status /repo/site_def.h "$s/" 2>/dev/null
if ! patch -p1 -s -f -d "$s" -i "/verif/seeded/$id/patch.diff" >/dev/null 2>&1; then echo "$id: patch does not apply"; rm -rf "$s"; exit 0; fi
ZVBI_REPO="$s" ZSA_CACHE="$s/_cache" ZSA_EVIDENCE_DIR="$s/_ev" ./check "$prop" > "$s/out" 2>&1; r=$?
k=$(grep -a -A1 "^VIOLATION" "$s/out" | grep -av "^VIOLATION\|^--" | head -1 | sed "s/^ *//" | cut -c1-90)
[ "$r" = "2" ] && k=$(grep -a "ANALYSIS-BROKEN" "$s/out" | head -1 | cut -c1-120)
echo "$id: $prop=exit$r [$k]"
rm -rf "$s"
' | sort
rm -rf "$snap"
