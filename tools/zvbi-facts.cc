// zvbi-facts: libTooling fact extractor for the zvbi static checks.
//
// For one translation unit it writes a JSON file with, for every function
// *defined* in the unit or in a repository header it includes:
//   identity, parameters, the clang CFG (all sub-expressions as elements, in
//   evaluation order), a table of expression nodes (operator, integer type,
//   folded constant, resolved callee / declaration, declared array bounds),
// and, for the unit: record layouts, enums, global variables with their
// initialisers (function-pointer slots, constant tables).
//
// Everything is read off the type-checked AST: nothing is matched by text.
//
// usage: zvbi-facts --out=FILE [--root=/repo] unit.c -- <compile flags>

#include "clang/AST/ASTConsumer.h"
#include "clang/AST/ASTContext.h"
#include "clang/AST/RecordLayout.h"
#include "clang/AST/RecursiveASTVisitor.h"
#include "clang/Analysis/CFG.h"
#include "clang/Frontend/CompilerInstance.h"
#include "clang/Frontend/FrontendAction.h"
#include "clang/Lex/Lexer.h"
#include "clang/Tooling/CommonOptionsParser.h"
#include "clang/Tooling/Tooling.h"
#include "llvm/Support/CommandLine.h"
#include "llvm/Support/raw_ostream.h"

#include <map>
#include <set>
#include <string>
#include <vector>

using namespace clang;
using namespace clang::tooling;

static llvm::cl::OptionCategory Cat("zvbi-facts options");
static llvm::cl::opt<std::string> OutFile("out", llvm::cl::desc("output JSON"),
                                          llvm::cl::Required,
                                          llvm::cl::cat(Cat));
static llvm::cl::opt<std::string> Root("root", llvm::cl::desc("repository root"),
                                       llvm::cl::init("/repo"),
                                       llvm::cl::cat(Cat));

namespace {

std::string jstr(llvm::StringRef S) {
  std::string R = "\"";
  for (unsigned char C : S) {
    switch (C) {
    case '"': R += "\\\""; break;
    case '\\': R += "\\\\"; break;
    case '\n': R += "\\n"; break;
    case '\r': R += "\\r"; break;
    case '\t': R += "\\t"; break;
    default:
      if (C < 0x20 || C >= 0x7f) {
        char B[8];
        snprintf(B, sizeof B, "\\u%04x", C);
        R += B;
      } else
        R += (char)C;
    }
  }
  R += "\"";
  return R;
}

struct Emitter {
  ASTContext &Ctx;
  SourceManager &SM;
  std::string RootDir;

  Emitter(ASTContext &C) : Ctx(C), SM(C.getSourceManager()), RootDir(Root) {
    if (!RootDir.empty() && RootDir.back() != '/')
      RootDir += '/';
  }

  // ---- locations -------------------------------------------------------
  std::string fileOf(SourceLocation L) {
    L = SM.getExpansionLoc(L);
    PresumedLoc P = SM.getPresumedLoc(L);
    if (P.isInvalid())
      return "";
    std::string F = P.getFilename();
    llvm::SmallString<256> Abs(F);
    SM.getFileManager().makeAbsolutePath(Abs);
    llvm::sys::path::remove_dots(Abs, true);
    return std::string(Abs.str());
  }
  bool inRepo(SourceLocation L) {
    std::string F = fileOf(L);
    return F.compare(0, RootDir.size(), RootDir) == 0;
  }
  std::string relFile(SourceLocation L) {
    std::string F = fileOf(L);
    if (F.compare(0, RootDir.size(), RootDir) == 0)
      return F.substr(RootDir.size());
    return F;
  }
  unsigned lineOf(SourceLocation L) {
    L = SM.getExpansionLoc(L);
    PresumedLoc P = SM.getPresumedLoc(L);
    return P.isInvalid() ? 0 : P.getLine();
  }

  // ---- types -----------------------------------------------------------
  std::string typeStr(QualType T) {
    return T.getCanonicalType().getUnqualifiedType().getAsString();
  }
  // [bits, signed] for integer-like types
  bool intInfo(QualType T, unsigned &Bits, bool &Signed) {
    T = T.getCanonicalType();
    if (T->isBooleanType()) { Bits = 1; Signed = false; return true; }
    if (const auto *ET = T->getAs<EnumType>()) {
      QualType U = ET->getDecl()->getIntegerType();
      if (U.isNull()) return false;
      T = U.getCanonicalType();
    }
    if (!T->isIntegerType()) return false;
    Bits = Ctx.getTypeSize(T);
    Signed = T->isSignedIntegerType();
    return true;
  }
  // array dimensions of a constant array type, outermost first
  bool arrDims(QualType T, std::vector<uint64_t> &Dims, uint64_t &ElemSize) {
    T = T.getCanonicalType();
    const auto *AT = Ctx.getAsConstantArrayType(T);
    if (!AT) return false;
    while (AT) {
      Dims.push_back(AT->getSize().getZExtValue());
      T = AT->getElementType();
      AT = Ctx.getAsConstantArrayType(T);
    }
    ElemSize = T->isIncompleteType() ? 0 : Ctx.getTypeSizeInChars(T).getQuantity();
    return true;
  }
  std::string typeFacts(QualType T) {
    std::string R = "\"t\":" + jstr(typeStr(T));
    unsigned B; bool S;
    if (intInfo(T, B, S))
      R += ",\"it\":[" + std::to_string(B) + "," + (S ? "1" : "0") + "]";
    std::vector<uint64_t> D; uint64_t ES;
    if (arrDims(T, D, ES)) {
      R += ",\"arr\":[";
      for (size_t i = 0; i < D.size(); ++i)
        R += (i ? "," : "") + std::to_string(D[i]);
      R += "],\"esz\":" + std::to_string(ES);
    }
    QualType C = T.getCanonicalType();
    if (C->isPointerType()) {
      QualType P = C->getPointeeType();
      if (!P->isIncompleteType() && !P->isFunctionType())
        R += ",\"psz\":" + std::to_string(Ctx.getTypeSizeInChars(P).getQuantity());
      if (const auto *RT = P->getAs<RecordType>())
        R += ",\"prec\":" + jstr(recName(RT->getDecl()));
    }
    if (const auto *RT = C->getAs<RecordType>())
      R += ",\"rec\":" + jstr(recName(RT->getDecl()));
    return R;
  }
  std::string recName(const RecordDecl *RD) {
    if (RD->getIdentifier())
      return RD->getName().str();
    if (const TypedefNameDecl *TD = RD->getTypedefNameForAnonDecl())
      return TD->getName().str();
    return "anon@" + relFile(RD->getLocation()) + ":" +
           std::to_string(lineOf(RD->getLocation()));
  }

  // ---- per function expression table -------------------------------------
  std::map<const Stmt *, int> Ids;
  std::map<const Decl *, int> DeclIds;
  std::vector<std::string> Nodes;
  std::set<const RecordDecl *> Records;
  std::set<const EnumDecl *> Enums;

  void resetFunction() {
    Ids.clear();
    Nodes.clear();
  }
  int declId(const Decl *D) {
    auto It = DeclIds.find(D);
    if (It != DeclIds.end()) return It->second;
    int N = DeclIds.size() + 1;
    DeclIds[D] = N;
    return N;
  }

  const Stmt *strip(const Stmt *S) {
    while (S) {
      if (const auto *P = dyn_cast<ParenExpr>(S)) { S = P->getSubExpr(); continue; }
      if (const auto *C = dyn_cast<ConstantExpr>(S)) { S = C->getSubExpr(); continue; }
      if (const auto *C = dyn_cast<ExprWithCleanups>(S)) { S = C->getSubExpr(); continue; }
      break;
    }
    return S;
  }

  std::string macroOf(SourceLocation L) {
    if (!L.isMacroID()) return "";
    // outermost macro whose expansion starts here
    std::string Name;
    SourceLocation Cur = L;
    while (Cur.isMacroID()) {
      if (SM.isMacroArgExpansion(Cur)) {
        Cur = SM.getImmediateExpansionRange(Cur).getBegin();
        continue;
      }
      Name = Lexer::getImmediateMacroName(Cur, SM, Ctx.getLangOpts()).str();
      Cur = SM.getImmediateExpansionRange(Cur).getBegin();
    }
    return Name;
  }

  void noteType(QualType T) {
    T = T.getCanonicalType();
    for (int Depth = 0; Depth < 8; ++Depth) {
      if (T->isPointerType()) { T = T->getPointeeType().getCanonicalType(); continue; }
      if (const ArrayType *AT = Ctx.getAsArrayType(T)) { T = AT->getElementType().getCanonicalType(); continue; }
      break;
    }
    if (const auto *RT = T->getAs<RecordType>())
      Records.insert(RT->getDecl()->getDefinition() ? RT->getDecl()->getDefinition() : RT->getDecl());
    if (const auto *ET = T->getAs<EnumType>())
      Enums.insert(ET->getDecl());
  }

  int emit(const Stmt *S0) {
    const Stmt *S = strip(S0);
    if (!S) return -1;
    auto It = Ids.find(S);
    if (It != Ids.end()) return It->second;
    int Id = Nodes.size();
    Ids[S] = Id;
    Nodes.emplace_back();
    std::string R;
    std::vector<int> Ch;
    std::string K = "stmt";
    std::string Extra;

    if (const auto *E = dyn_cast<Expr>(S)) {
      Extra += "," + typeFacts(E->getType());
      noteType(E->getType());
      if (!E->getType()->isVoidType() && E->getType()->isIntegralOrEnumerationType() &&
          !isa<InitListExpr>(E)) {
        Expr::EvalResult ER;
        if (E->EvaluateAsInt(ER, Ctx, Expr::SE_NoSideEffects)) {
          llvm::APSInt V = ER.Val.getInt();
          llvm::SmallString<40> Str;
          V.toString(Str, 10);
          Extra += ",\"v\":" + std::string(Str.str());
        }
      }
      std::string M = macroOf(E->getBeginLoc());
      if (!M.empty()) Extra += ",\"mac\":" + jstr(M);
    }

    if (const auto *IL = dyn_cast<IntegerLiteral>(S)) {
      K = "int"; (void)IL;
    } else if (isa<CharacterLiteral>(S)) {
      K = "int";
    } else if (isa<FloatingLiteral>(S)) {
      K = "float";
    } else if (const auto *SL = dyn_cast<StringLiteral>(S)) {
      K = "str";
      Extra += ",\"len\":" + std::to_string(SL->getLength());
      if (SL->getCharByteWidth() == 1)
        Extra += ",\"s\":" + jstr(SL->getString().substr(0, 256));
    } else if (const auto *DR = dyn_cast<DeclRefExpr>(S)) {
      K = "ref";
      const ValueDecl *D = DR->getDecl();
      Extra += ",\"name\":" + jstr(D->getNameAsString());
      if (const auto *VD = dyn_cast<VarDecl>(D)) {
        const char *DK = isa<ParmVarDecl>(VD) ? "param"
                         : VD->isLocalVarDecl() ? (VD->isStaticLocal() ? "slocal" : "local")
                                                : "global";
        Extra += std::string(",\"dk\":\"") + DK + "\"";
        if (VD->isLocalVarDeclOrParm())
          Extra += ",\"did\":" + std::to_string(declId(VD));
      } else if (isa<FunctionDecl>(D)) {
        Extra += ",\"dk\":\"func\"";
      } else if (isa<EnumConstantDecl>(D)) {
        Extra += ",\"dk\":\"enum\"";
      }
    } else if (const auto *ME = dyn_cast<MemberExpr>(S)) {
      K = "mem";
      Extra += ",\"member\":" + jstr(ME->getMemberDecl()->getNameAsString());
      Extra += std::string(",\"arrow\":") + (ME->isArrow() ? "1" : "0");
      if (const auto *FD = dyn_cast<FieldDecl>(ME->getMemberDecl())) {
        Extra += ",\"in\":" + jstr(recName(FD->getParent()));
        if (FD->isBitField())
          Extra += ",\"bf\":" + std::to_string(FD->getBitWidthValue(Ctx));
      }
      Ch.push_back(emit(ME->getBase()));
    } else if (const auto *AS = dyn_cast<ArraySubscriptExpr>(S)) {
      K = "idx";
      Ch.push_back(emit(AS->getBase()));
      Ch.push_back(emit(AS->getIdx()));
    } else if (const auto *UO = dyn_cast<UnaryOperator>(S)) {
      K = "un";
      Extra += ",\"op\":" + jstr(UnaryOperator::getOpcodeStr(UO->getOpcode()));
      if (UO->isPostfix()) Extra += ",\"post\":1";
      Ch.push_back(emit(UO->getSubExpr()));
    } else if (const auto *CAO = dyn_cast<CompoundAssignOperator>(S)) {
      K = "asg";
      Extra += ",\"op\":" + jstr(CAO->getOpcodeStr());
      unsigned B; bool Sg;
      if (intInfo(CAO->getComputationResultType(), B, Sg))
        Extra += ",\"cit\":[" + std::to_string(B) + "," + (Sg ? "1" : "0") + "]";
      Ch.push_back(emit(CAO->getLHS()));
      Ch.push_back(emit(CAO->getRHS()));
    } else if (const auto *BO = dyn_cast<BinaryOperator>(S)) {
      K = BO->isAssignmentOp() ? "asg" : "bin";
      Extra += ",\"op\":" + jstr(BO->getOpcodeStr());
      Ch.push_back(emit(BO->getLHS()));
      Ch.push_back(emit(BO->getRHS()));
    } else if (const auto *CO = dyn_cast<ConditionalOperator>(S)) {
      K = "cond";
      Ch.push_back(emit(CO->getCond()));
      Ch.push_back(emit(CO->getTrueExpr()));
      Ch.push_back(emit(CO->getFalseExpr()));
    } else if (const auto *BCO = dyn_cast<BinaryConditionalOperator>(S)) {
      K = "cond";
      Extra += ",\"gnu\":1";
      Ch.push_back(emit(BCO->getCommon()));
      Ch.push_back(emit(BCO->getCommon()));
      Ch.push_back(emit(BCO->getFalseExpr()));
    } else if (const auto *OVE = dyn_cast<OpaqueValueExpr>(S)) {
      K = "opaque";
      if (OVE->getSourceExpr()) Ch.push_back(emit(OVE->getSourceExpr()));
    } else if (const auto *CE = dyn_cast<CallExpr>(S)) {
      K = "call";
      if (const FunctionDecl *FD = CE->getDirectCallee()) {
        Extra += ",\"callee\":" + jstr(FD->getNameAsString());
        if (FD->isNoReturn() || FD->hasAttr<NoReturnAttr>())
          Extra += ",\"noret\":1";
        if (unsigned BI = FD->getBuiltinID())
          Extra += ",\"builtin\":" + std::to_string(BI);
      } else {
        Extra += ",\"fn\":" + std::to_string(emit(CE->getCallee()));
      }
      for (const Expr *A : CE->arguments())
        Ch.push_back(emit(A));
    } else if (const auto *CX = dyn_cast<CastExpr>(S)) {
      K = "cast";
      Extra += ",\"ck\":" + jstr(CX->getCastKindName());
      if (isa<ImplicitCastExpr>(CX)) Extra += ",\"impl\":1";
      Ch.push_back(emit(CX->getSubExpr()));
    } else if (const auto *UE = dyn_cast<UnaryExprOrTypeTraitExpr>(S)) {
      K = "sizeof";
      if (!UE->isArgumentType()) {
        // the operand is unevaluated; keep its shape for messages only
        Extra += ",\"uneval\":" + std::to_string(emit(UE->getArgumentExpr()));
      } else {
        Extra += ",\"of\":" + jstr(typeStr(UE->getArgumentType()));
      }
    } else if (const auto *ILE = dyn_cast<InitListExpr>(S)) {
      K = "initlist";
      const InitListExpr *Sem = ILE->isSemanticForm() ? ILE : (ILE->getSemanticForm() ? ILE->getSemanticForm() : ILE);
      unsigned N = Sem->getNumInits();
      // constant integer arrays: values only
      bool AllInt = N > 16;
      if (AllInt)
        for (unsigned i = 0; i < N && AllInt; ++i) {
          const Expr *I = Sem->getInit(i);
          Expr::EvalResult ER;
          if (!I->getType()->isIntegralOrEnumerationType() ||
              !I->EvaluateAsInt(ER, Ctx, Expr::SE_NoSideEffects))
            AllInt = false;
        }
      if (AllInt) {
        Extra += ",\"values\":[";
        for (unsigned i = 0; i < N; ++i) {
          Expr::EvalResult ER;
          Sem->getInit(i)->EvaluateAsInt(ER, Ctx, Expr::SE_NoSideEffects);
          llvm::SmallString<40> Str;
          ER.Val.getInt().toString(Str, 10);
          Extra += (i ? "," : "") + std::string(Str.str());
        }
        Extra += "]";
      } else if (N <= 4096) {
        for (unsigned i = 0; i < N; ++i)
          Ch.push_back(emit(Sem->getInit(i)));
      } else {
        Extra += ",\"elided\":" + std::to_string(N);
      }
      if (Sem->hasArrayFiller()) Extra += ",\"filler\":1";
    } else if (const auto *CLE = dyn_cast<CompoundLiteralExpr>(S)) {
      K = "complit";
      Ch.push_back(emit(CLE->getInitializer()));
    } else if (const auto *SE = dyn_cast<StmtExpr>(S)) {
      K = "stmtexpr";
      const CompoundStmt *CS = SE->getSubStmt();
      if (CS && !CS->body_empty()) {
        const Stmt *Last = CS->body_back();
        while (const auto *LS = dyn_cast<LabelStmt>(Last)) Last = LS->getSubStmt();
        if (isa<Expr>(Last)) Ch.push_back(emit(Last));
      }
    } else if (isa<ImplicitValueInitExpr>(S)) {
      K = "zeroinit";
    } else if (const auto *DIE = dyn_cast<DesignatedInitExpr>(S)) {
      K = "desinit";
      Ch.push_back(emit(DIE->getInit()));
    } else if (isa<PredefinedExpr>(S)) {
      K = "str";
    } else if (isa<OffsetOfExpr>(S)) {
      K = "int";
    } else if (const auto *VA = dyn_cast<VAArgExpr>(S)) {
      K = "vaarg";
      Ch.push_back(emit(VA->getSubExpr()));
    } else if (const auto *DS = dyn_cast<DeclStmt>(S)) {
      K = "decl";
      Extra += ",\"vars\":[";
      bool First = true;
      for (const Decl *D : DS->decls()) {
        const auto *VD = dyn_cast<VarDecl>(D);
        if (!VD) continue;
        noteType(VD->getType());
        if (!First) Extra += ",";
        First = false;
        Extra += "{\"name\":" + jstr(VD->getNameAsString()) +
                 ",\"did\":" + std::to_string(declId(VD)) + "," + typeFacts(VD->getType());
        if (VD->isStaticLocal()) Extra += ",\"static\":1";
        if (VD->hasInit()) Extra += ",\"init\":" + std::to_string(emit(VD->getInit()));
        Extra += "}";
      }
      Extra += "]";
    } else if (const auto *RS = dyn_cast<ReturnStmt>(S)) {
      K = "ret";
      if (RS->getRetValue()) Ch.push_back(emit(RS->getRetValue()));
    } else if (isa<Expr>(S)) {
      K = std::string("expr:") + S->getStmtClassName();
      for (const Stmt *C : S->children())
        if (C) Ch.push_back(emit(C));
    } else {
      K = std::string("stmt:") + S->getStmtClassName();
    }

    R = "{\"k\":" + jstr(K) + ",\"line\":" + std::to_string(lineOf(S->getBeginLoc()));
    if (!Ch.empty()) {
      R += ",\"c\":[";
      for (size_t i = 0; i < Ch.size(); ++i)
        R += (i ? "," : "") + std::to_string(Ch[i]);
      R += "]";
    }
    R += Extra + "}";
    Nodes[Id] = R;
    return Id;
  }

  // ---- functions ---------------------------------------------------------
  std::string functionFacts(const FunctionDecl *FD) {
    resetFunction();
    std::string R = "{\"name\":" + jstr(FD->getNameAsString());
    R += ",\"file\":" + jstr(relFile(FD->getLocation()));
    R += ",\"line\":" + std::to_string(lineOf(FD->getBeginLoc()));
    R += ",\"endline\":" + std::to_string(lineOf(FD->getEndLoc()));
    R += std::string(",\"static\":") + (FD->getStorageClass() == SC_Static ? "1" : "0");
    R += std::string(",\"inline\":") + (FD->isInlineSpecified() ? "1" : "0");
    R += ",\"ret\":{" + typeFacts(FD->getReturnType()) + "}";
    R += ",\"params\":[";
    for (unsigned i = 0; i < FD->getNumParams(); ++i) {
      const ParmVarDecl *P = FD->getParamDecl(i);
      noteType(P->getType());
      R += (i ? "," : "");
      R += "{\"name\":" + jstr(P->getNameAsString()) + ",\"did\":" +
           std::to_string(declId(P)) + "," + typeFacts(P->getType());
      // `const uint8_t buffer[42]`: the declared element count is the contract
      {
        QualType OT = P->getOriginalType();
        if (const auto *CAT = Ctx.getAsConstantArrayType(OT))
          R += ",\"parr\":" + std::to_string(CAT->getSize().getZExtValue());
      }
      R += "}";
    }
    R += "]";
    if (FD->isVariadic()) R += ",\"variadic\":1";

    CFG::BuildOptions BO;
    BO.setAllAlwaysAdd();
    BO.AddEHEdges = false;
    BO.PruneTriviallyFalseEdges = false;
    std::unique_ptr<CFG> G = CFG::buildCFG(FD, FD->getBody(), &Ctx, BO);
    if (!G) {
      R += ",\"cfg_failed\":1,\"blocks\":[],\"exprs\":[]}";
      return R;
    }
    std::string Blocks = "[";
    bool FirstB = true;
    for (const CFGBlock *B : *G) {
      if (!FirstB) Blocks += ",";
      FirstB = false;
      Blocks += "{\"id\":" + std::to_string(B->getBlockID());
      Blocks += ",\"elems\":[";
      int Prev = -1; bool FirstE = true;
      for (const CFGElement &El : *B) {
        if (auto CS = El.getAs<CFGStmt>()) {
          int Id = emit(CS->getStmt());
          if (Id == Prev) continue;
          Prev = Id;
          Blocks += (FirstE ? "" : ",") + std::to_string(Id);
          FirstE = false;
        }
      }
      Blocks += "]";
      if (const Stmt *T = B->getTerminatorStmt()) {
        std::string TK = T->getStmtClassName();
        Blocks += ",\"term\":{\"kind\":" + jstr(TK);
        if (const auto *BO2 = dyn_cast<BinaryOperator>(T))
          Blocks += ",\"op\":" + jstr(BO2->getOpcodeStr());
        Blocks += ",\"line\":" + std::to_string(lineOf(T->getBeginLoc()));
        if (const Stmt *C = B->getTerminatorCondition())
          Blocks += ",\"cond\":" + std::to_string(emit(C));
        if (const auto *GS = dyn_cast<GotoStmt>(T))
          Blocks += ",\"label\":" + jstr(GS->getLabel()->getName());
        Blocks += "}";
      }
      if (const Stmt *L = B->getLabel()) {
        if (const auto *CS = dyn_cast<CaseStmt>(L)) {
          Expr::EvalResult Lo, Hi;
          bool Ok = CS->getLHS()->EvaluateAsInt(Lo, Ctx);
          llvm::SmallString<40> A, Bs;
          if (Ok) {
            Lo.Val.getInt().toString(A, 10);
            if (CS->getRHS() && CS->getRHS()->EvaluateAsInt(Hi, Ctx))
              Hi.Val.getInt().toString(Bs, 10);
            else
              Bs = A;
            Blocks += ",\"label\":{\"case\":[" + std::string(A.str()) + "," + std::string(Bs.str()) + "]}";
          }
        } else if (isa<DefaultStmt>(L)) {
          Blocks += ",\"label\":{\"default\":1}";
        } else if (const auto *LS = dyn_cast<LabelStmt>(L)) {
          Blocks += ",\"label\":{\"name\":" + jstr(LS->getName()) + "}";
        }
      }
      if (B->hasNoReturnElement()) Blocks += ",\"noret\":1";
      Blocks += ",\"succs\":[";
      bool FirstS = true;
      for (auto SI = B->succ_begin(); SI != B->succ_end(); ++SI) {
        const CFGBlock *SB = SI->getReachableBlock();
        if (!SB) SB = SI->getPossiblyUnreachableBlock();
        Blocks += (FirstS ? "" : ",");
        FirstS = false;
        Blocks += SB ? std::to_string(SB->getBlockID()) : "null";
      }
      Blocks += "]}";
    }
    Blocks += "]";
    R += ",\"entry\":" + std::to_string(G->getEntry().getBlockID());
    R += ",\"exit\":" + std::to_string(G->getExit().getBlockID());
    R += ",\"blocks\":" + Blocks;
    R += ",\"exprs\":[";
    for (size_t i = 0; i < Nodes.size(); ++i)
      R += (i ? ",\n" : "\n") + Nodes[i];
    R += "]}";
    return R;
  }

  std::string globalFacts(const VarDecl *VD) {
    resetFunction();
    noteType(VD->getType());
    std::string R = "{\"name\":" + jstr(VD->getNameAsString());
    R += ",\"file\":" + jstr(relFile(VD->getLocation()));
    R += ",\"line\":" + std::to_string(lineOf(VD->getLocation()));
    R += std::string(",\"static\":") + (VD->getStorageClass() == SC_Static ? "1" : "0");
    R += std::string(",\"const\":") + (VD->getType().isConstQualified() ||
                                       (Ctx.getAsArrayType(VD->getType()) &&
                                        Ctx.getBaseElementType(VD->getType()).isConstQualified())
                                           ? "1" : "0");
    R += "," + typeFacts(VD->getType());
    if (VD->isStaticLocal()) R += ",\"slocal\":1";
    if (VD->hasInit() && VD->isThisDeclarationADefinition()) {
      int Id = emit(VD->getInit());
      R += ",\"init\":" + std::to_string(Id);
      R += ",\"exprs\":[";
      for (size_t i = 0; i < Nodes.size(); ++i)
        R += (i ? ",\n" : "\n") + Nodes[i];
      R += "]";
    }
    R += "}";
    return R;
  }

  std::string recordFacts(const RecordDecl *RD) {
    std::string R = "{\"name\":" + jstr(recName(RD));
    R += std::string(",\"union\":") + (RD->isUnion() ? "1" : "0");
    const RecordDecl *Def = RD->getDefinition();
    if (!Def || Def->isInvalidDecl()) { R += ",\"incomplete\":1}"; return R; }
    const ASTRecordLayout &L = Ctx.getASTRecordLayout(Def);
    R += ",\"size\":" + std::to_string(L.getSize().getQuantity());
    R += ",\"fields\":[";
    unsigned i = 0;
    for (const FieldDecl *F : Def->fields()) {
      R += (i ? "," : "");
      R += "{\"name\":" + jstr(F->getNameAsString()) + ",\"off\":" +
           std::to_string(L.getFieldOffset(i) / 8) + "," + typeFacts(F->getType());
      if (!F->getType()->isIncompleteType() && !F->isBitField())
        R += ",\"size\":" + std::to_string(Ctx.getTypeSizeInChars(F->getType()).getQuantity());
      if (F->isBitField()) R += ",\"bf\":" + std::to_string(F->getBitWidthValue(Ctx));
      R += "}";
      ++i;
      noteType(F->getType());
    }
    R += "]}";
    return R;
  }

  std::string enumFacts(const EnumDecl *ED) {
    std::string N = ED->getIdentifier() ? ED->getName().str()
                    : ED->getTypedefNameForAnonDecl() ? ED->getTypedefNameForAnonDecl()->getName().str()
                    : "anon@" + relFile(ED->getLocation()) + ":" + std::to_string(lineOf(ED->getLocation()));
    std::string R = "{\"name\":" + jstr(N) + ",\"enumerators\":{";
    bool First = true;
    for (const EnumConstantDecl *C : ED->enumerators()) {
      llvm::SmallString<40> Str;
      C->getInitVal().toString(Str, 10);
      R += (First ? "" : ",") + jstr(C->getName()) + ":" + std::string(Str.str());
      First = false;
    }
    R += "}}";
    return R;
  }
};

class Consumer : public ASTConsumer {
public:
  void HandleTranslationUnit(ASTContext &Ctx) override {
    Emitter E(Ctx);
    std::vector<std::string> Funcs, Globals;
    std::vector<std::string> Decls; // declared-only functions (prototypes) in repo
    const TranslationUnitDecl *TU = Ctx.getTranslationUnitDecl();
    std::string MainFile;
    if (auto FE = Ctx.getSourceManager().getFileEntryForID(Ctx.getSourceManager().getMainFileID()))
      MainFile = E.relFile(Ctx.getSourceManager().getLocForStartOfFile(Ctx.getSourceManager().getMainFileID()));
    std::set<const EnumDecl *> AllEnums;
    for (const Decl *D : TU->decls()) {
      if (const auto *FD = dyn_cast<FunctionDecl>(D)) {
        if (!FD->doesThisDeclarationHaveABody()) continue;
        if (!E.inRepo(FD->getLocation())) continue;
        Funcs.push_back(E.functionFacts(FD));
        // static locals are globals in disguise
      } else if (const auto *VD = dyn_cast<VarDecl>(D)) {
        if (!E.inRepo(VD->getLocation())) continue;
        Globals.push_back(E.globalFacts(VD));
      } else if (const auto *ED = dyn_cast<EnumDecl>(D)) {
        if (E.inRepo(ED->getLocation()) && ED->isCompleteDefinition()) AllEnums.insert(ED);
      } else if (const auto *TD = dyn_cast<TypedefDecl>(D)) {
        if (!E.inRepo(TD->getLocation())) continue;
        E.noteType(TD->getUnderlyingType());
      } else if (const auto *RD = dyn_cast<RecordDecl>(D)) {
        if (E.inRepo(RD->getLocation()) && RD->isCompleteDefinition()) E.Records.insert(RD);
      }
    }
    for (const EnumDecl *ED : E.Enums) AllEnums.insert(ED);
    // record closure
    std::vector<std::string> Recs;
    std::set<const RecordDecl *> Done;
    bool Changed = true;
    while (Changed) {
      Changed = false;
      std::vector<const RecordDecl *> Work(E.Records.begin(), E.Records.end());
      for (const RecordDecl *RD : Work) {
        if (Done.count(RD)) continue;
        Done.insert(RD);
        Changed = true;
        if (!E.inRepo(RD->getLocation())) continue;
        Recs.push_back(E.recordFacts(RD));
      }
    }
    std::vector<std::string> Ens;
    for (const EnumDecl *ED : E.Enums) AllEnums.insert(ED);
    for (const EnumDecl *ED : AllEnums)
      if (ED->isCompleteDefinition() && E.inRepo(ED->getLocation()))
        Ens.push_back(E.enumFacts(ED));

    std::error_code EC;
    llvm::raw_fd_ostream OS(OutFile, EC);
    if (EC) {
      llvm::errs() << "cannot write " << OutFile << ": " << EC.message() << "\n";
      exit(3);
    }
    OS << "{\"unit\":" << jstr(MainFile) << ",\n\"functions\":[\n";
    for (size_t i = 0; i < Funcs.size(); ++i) OS << (i ? ",\n" : "") << Funcs[i];
    OS << "],\n\"globals\":[\n";
    for (size_t i = 0; i < Globals.size(); ++i) OS << (i ? ",\n" : "") << Globals[i];
    OS << "],\n\"records\":[\n";
    for (size_t i = 0; i < Recs.size(); ++i) OS << (i ? ",\n" : "") << Recs[i];
    OS << "],\n\"enums\":[\n";
    for (size_t i = 0; i < Ens.size(); ++i) OS << (i ? ",\n" : "") << Ens[i];
    OS << "]}\n";
  }
};

class Action : public ASTFrontendAction {
public:
  std::unique_ptr<ASTConsumer> CreateASTConsumer(CompilerInstance &, llvm::StringRef) override {
    return std::make_unique<Consumer>();
  }
};

} // namespace

int main(int argc, const char **argv) {
  auto Parser = CommonOptionsParser::create(argc, argv, Cat);
  if (!Parser) {
    llvm::errs() << llvm::toString(Parser.takeError()) << "\n";
    return 2;
  }
  ClangTool Tool(Parser->getCompilations(), Parser->getSourcePathList());
  int RC = Tool.run(newFrontendActionFactory<Action>().get());
  return RC ? 2 : 0;
}
