#!/usr/bin/env python3
"""usage: make_prompt.py Cxx first_k  -> prompt text on stdout (seed ids Cxx_<first_k>, Cxx_<first_k+1>)
Only the property text and the scratch tree path are given to the sub-agent; nothing from /verif."""
import json, sys
pid, k0 = sys.argv[1], int(sys.argv[2])
extra = sys.argv[3] if len(sys.argv) > 3 else ""
prop = None
for l in open("/verif/properties.jsonl"):
    d = json.loads(l)
    if d["id"] == pid:
        prop = d
T = open("/verif/tools/seeding/example_prompt_C01.txt").read()
head, rest = T.split("{\n \"id\": \"C01\"", 1)
tail = rest.split("\nTASK:", 1)[1]
tail = "\nTASK:" + tail
body = json.dumps(prop, indent=1)
txt = head + body + "\n" + tail
txt = txt.replace("/tmp/zw_C01", "/tmp/zw3_%s" % pid).replace("C01_k", "%s_k" % pid).replace('"C01"', '"%s"' % pid)
txt = txt.replace("k = 1..2", "k = %d..%d" % (k0, k0 + 1))
if extra:
    txt += "\n" + extra + "\n"
sys.stdout.write(txt)
