#!/usr/bin/env python3
"""usage: make_benign_prompt.py Cxx <tree> <first_k> <n>  -> prompt text on stdout
Behaviour-preserving edits (false-alarm probes).  Only the property text and the scratch tree path are
given to the sub-agent; nothing from /verif."""
import json, sys
pid, tree, k0, n = sys.argv[1], sys.argv[2], int(sys.argv[3]), int(sys.argv[4])
prop = None
for l in open("/verif/properties.jsonl"):
    d = json.loads(l)
    if d["id"] == pid:
        prop = d
body = json.dumps(prop, indent=1)
txt = f"""You are helping test a verification effort for the C library zvbi (libzvbi: VBI capture/decoding: Teletext, Closed Caption, VPS, WSS, DVB VBI mux/demux, Teletext cache, proxy daemon).

Your own scratch copy of the repository (a git repo, already configured and built in-tree with autotools) is at {tree}. Work ONLY inside {tree} (and files you create under it). Do not read or write /verif or /repo at all. There is no network.

Build: `make -j16 -C {tree} >/dev/null` (a few seconds). Test suite: `make -j16 -C {tree} check` (19 tests, ~10 s; all pass on the unchanged tree). Tests link libzvbi statically from {tree}/src/.libs/libzvbi.a (headers: {tree}/src/libzvbi.h and the private headers in {tree}/src). A demo program can be compiled e.g. with `gcc -g -I{tree} -I{tree}/src -DHAVE_CONFIG_H -D_GNU_SOURCE demo.c {tree}/src/.libs/libzvbi.a -lpthread -lm -lpng -lz -o demo`. Private/static functions can be reached by #include-ing the .c file in the demo if necessary.

Here is a semantic property of zvbi that holds on the current tree (JSON record; the anchors tell you where the mechanism lives):

{body}

TASK: produce {n} DIFFERENT, independent, realistic source changes to zvbi that a maintainer could make while cleaning up or refactoring the code that implements this property, each of which PRESERVES the behaviour of the library exactly (for every input, history and schedule the observable behaviour is unchanged, so the property above still holds), while the tree still compiles and `make check` still passes completely. The point is to find out whether a static checker of this property raises false alarms on harmless edits, so the edits must touch the functions and mechanisms named in the anchors (the guards, counters, lock regions, reference counting, tables, state updates that make the property true) - not unrelated code - and rewrite them in a different but equivalent shape. Use a different kind of edit for each change, and make each one non-trivial (10-60 changed lines is typical). Kinds of edit to draw from:
 - extract part of a function into a new static helper (or inline a small static helper into its callers);
 - invert an if/else, turn an early return/continue/goto into a nested block or the reverse, merge two guards into one condition or split one guard in two;
 - convert a switch into an if/else-if chain or the reverse; convert a for loop into a while loop or the reverse; count a loop down instead of up where the order does not matter;
 - introduce temporaries / remove temporaries, rename local variables, hoist a repeated sub-expression, replace a magic number by sizeof / N_ELEMENTS / a new macro or enum with the same value (or the reverse);
 - reorder statements that are independent of each other; move a declaration; widen a local integer type where all values fit;
 - add a redundant defensive check that can never fire, or an extra assertion that always holds, or debug logging;
 - rewrite an arithmetic or bit expression in an equivalent form (x * 2 -> x << 1 for unsigned, a & 7 -> a % 8 for unsigned, !(a < b) -> a >= b, De Morgan);
 - replace a hand-written loop by memcpy/memset or the reverse; use a pointer cursor instead of an index or the reverse;
 - rename a static function or a struct field used only inside one file (all uses updated).
Do NOT change behaviour in any corner case (think about error paths, wrap-around, signedness, evaluation order and side effects). Do not edit the tests. Do not just change comments/strings/whitespace.

For each change k = {k0}..{k0+n-1} create the directory {tree}/_benign/{pid}_b<k>/ containing:
 - patch.diff : output of `git -C {tree} diff` for that change alone (relative to the pristine HEAD; only source files of zvbi). Make sure each patch applies alone to a pristine tree with `git apply`.
 - meta.json : {{"property": "{pid}", "kind": "...which kind of edit...", "summary": "...what was changed...", "files": [...], "functions": [...], "why_equivalent": "...the argument that behaviour is unchanged, including corner cases...", "commands_run": ["..."], "make_check": "..."}}
 - optionally equiv.c + run.sh : a small differential program that exercises the edited code on many inputs and prints a digest; `sh run.sh <tree>` must print the same digest on the pristine and on the changed tree (mention the digest in meta.json).

Procedure per change: start from pristine (`git -C {tree} checkout -- .`), make the change, rebuild (no new warnings in the files you touched), run `make check` (must be 19/19 pass: look for FAIL lines), save patch.diff, then `git -C {tree} checkout -- .`. Really run all of this; if you are not certain that an edit is behaviour-preserving, drop it rather than keeping it.

When done, leave the tree pristine (`git -C {tree} checkout -- .`; _benign/ is untracked and stays) and reply with a short summary: for each change the kind, the files/functions touched, and the result of make check.
"""
sys.stdout.write(txt)
