/* Positive example for RF-PAIR/TZ: leaky_pil_to_time() returns on one path
   with TZ still changed; good_pil_to_time() restores on every path. */
#include <time.h>
typedef int vbi_bool;
extern vbi_bool change_tz (char **old_tz, const char *tz);
extern vbi_bool restore_tz (char **old_tz, const char *tz);

time_t
leaky_pil_to_time (struct tm *tm, const char *tz)
{
	char *old_tz;
	time_t result;

	if (!change_tz (&old_tz, tz))
		return (time_t) -1;

	result = mktime (tm);
	if ((time_t) -1 == result)
		return (time_t) -1;	/* leak: TZ not restored */

	if (!restore_tz (&old_tz, tz))
		return (time_t) -1;

	return result;
}

time_t
good_pil_to_time (struct tm *tm, const char *tz)
{
	char *old_tz;
	time_t result;

	if (!change_tz (&old_tz, tz))
		return (time_t) -1;

	result = mktime (tm);
	if ((time_t) -1 == result)
		goto failed;

	if (!restore_tz (&old_tz, tz))
		return (time_t) -1;

	return result;

 failed:
	restore_tz (&old_tz, tz);
	return (time_t) -1;
}
