/* Positive example for RF-VAC: swapped_update() subtracts a field it has just cleared
   (two statements in the wrong order); good_update() does it the right way round. */
struct wrap { unsigned int skip, leftover; };

void
swapped_update (struct wrap *w)
{
	if (w->skip > w->leftover) {
		w->leftover = 0;
		w->skip -= w->leftover;		/* vacuous: subtracts the 0 just stored */
	}
}

void
good_update (struct wrap *w)
{
	if (w->skip > w->leftover) {
		w->skip -= w->leftover;
		w->leftover = 0;
	}
}
