/* Positive example for RF-VAC: swapped_update() subtracts a field it has just cleared
   (two statements in the wrong order); good_update() does it the right way round. */
struct wrap { unsigned int skip, leftover; };

void
swapped_update (struct wrap *w)
{
	if (w->skip > w->leftover) {
		w->leftover = 0;
		w->skip -= w->leftover;		/* vacuous: subtracts the 0 just stored */
	}
}

void
good_update (struct wrap *w)
{
	if (w->skip > w->leftover) {
		w->skip -= w->leftover;
		w->leftover = 0;
	}
}

extern int unpar (unsigned char c);

int
dup_operand (const unsigned char *cur, const unsigned char *ref)
{
	int err = 0;

	err |= unpar (*ref) | unpar (*ref);	/* same operand twice: *cur is never tested */
	return err;
}

struct look { unsigned int skip, lookahead; };

void
copy_after_reset (struct look *w)
{
	w->lookahead = 48;
	w->skip = w->lookahead;			/* copies the constant just stored, not the old value */
}

void
copy_before_reset (struct look *w)
{
	w->skip = w->lookahead;
	w->lookahead = 48;
}
