/* Positive / negative examples for RF-NEG (decode-error discipline).
   Compiled with the library's flags; vbi_unham8/16p come from hamm.h. */
#include "hamm.h"

struct out { int a; int b; int c; };

/* a sum hides a negative operand: unham16p in [-1,255]; -1 + 256*k >= 0 */
int
bad_sum (struct out *o, const uint8_t *p)
{
	int v = vbi_unham16p (p) + vbi_unham16p (p + 2) * 256;

	if (v < 0)
		return 0;
	o->a = v;
	return 1;
}

int
bad_unchecked (struct out *o, const uint8_t *p)
{
	int v = vbi_unham8 (p[0]);

	o->b = v & 7;
	if (v < 0)
		return 0;
	return 1;
}

/* only the last iteration's value is tested */
int
bad_loop (struct out *o, const uint8_t *p)
{
	int i, t = 0, acc = 0;

	for (i = 0; i < 4; ++i) {
		t = vbi_unham8 (p[i]);
		acc = acc * 16 + (t & 15);
	}
	if (t < 0)
		return 0;
	o->c = acc;
	return 1;
}

int
good_or (struct out *o, const uint8_t *p)
{
	int i, t, err = 0;
	uint8_t b[4];

	for (i = 0; i < 4; ++i) {
		t = vbi_unham16p (p + i * 2);
		err |= t;
		b[i] = vbi_rev8 (t);
	}
	if (err < 0)
		return 0;
	o->a = b[0] + b[1] * 256;
	o->b = b[2];
	return 1;
}

int
good_each (struct out *o, const uint8_t *p)
{
	int x, y;

	if ((x = vbi_unham8 (p[0])) < 0)
		return 0;
	y = vbi_unham8 (p[1]);
	if (y >= 0) {
		o->a = x * 16 + y;
		return 1;
	}
	return 0;
}
